package c15

import (
	"testing"

	"pgregory.net/rapid"

	"verif/internal/h"
	"verif/internal/refprop"
)

func TestMain(m *testing.M) {
	h.Setup("C15",
		"F-core AST (depth<=4) printed canonically or in x-mode x option subsets of {i,m,s,n,x,RE2} x inputs (bounded-exhaustive over a 2-4 symbol pattern-derived alphabet, len<=5/4, for ~1/4 of the patterns; otherwise 10 pattern-directed/random strings) x every start offset; one evaluation = one (pattern,input,offset) comparison of FindRunesMatchStartingAt with the reference matcher; non-trivial = the reference finds a match and the pattern has a choice point (alternation, quantifier, lookaround, backreference, conditional), or there is no match although a literal rune of the pattern occurs in the input; distinct = hash of (pattern, options, input, offset)",
		map[string]float64{"match": 0.12, "nomatch": 0.15, "startAt-inner": 0.25, "nonascii-input": 0.10,
			"feat:lookahead/patterns": 0.04, "feat:lookbehind/patterns": 0.04, "feat:atomic/patterns": 0.04, "feat:backref/patterns": 0.04, "feat:conditional/patterns": 0.04,
			"feat:lazy/patterns": 0.04, "feat:counted-loop/patterns": 0.04, "feat:named-group/patterns": 0.04, "feat:inline-option/patterns": 0.04, "mirror-leg": 0.03},
		"the reference matcher (internal/refmatch) is a correct reading of the documented .NET-style semantics; it is guarded by a hand-checked table (TestReferenceTable) run in the replay tier",
		"IgnoreCase letters are restricted to plain upper/lower pairs")
	h.Ceiling("compile-error", 0.01)
	h.Ceiling("budget", 0.02)
	h.Main(m)
}

func TestProp(t *testing.T) {
	rapid.Check(t, prop)
}

func TestReplay(t *testing.T) {
	h.RunReplay(t, func(c refprop.Case) error {
		if err := refprop.Check(c); err != nil {
			return err
		}
		return refprop.CheckMirror(c)
	})
}

func prop(t *rapid.T) { refprop.Run(t, true) }

// FuzzProp lets Go's coverage-guided mutator drive the structured generators (thorough tier).
func FuzzProp(f *testing.F) { f.Fuzz(rapid.MakeFuzz(prop)) }
