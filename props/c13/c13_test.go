package c13

import (
	"fmt"
	"sort"
	"strings"
	"testing"

	regexp2 "github.com/dlclark/regexp2/v2"
	"pgregory.net/rapid"

	"verif/internal/ast"
	"verif/internal/canon"
	"verif/internal/cls"
	"verif/internal/eng"
	"verif/internal/gen"
	"verif/internal/h"
)

type Case struct {
	Spec   eng.Spec  `json:"spec"`
	AST    *ast.Node `json:"ast,omitempty"`
	Inputs []string  `json:"inputs"`
	Limits []int     `json:"limits"` // ascending, >= 0
}

func TestMain(m *testing.M) {
	h.Setup("C13",
		"F-full ASTs biased to deep nesting, counted loops, many alternations and lookarounds (large backtracking demand), runs of 3-14 consecutive single-character loops (left-to-right, RightToLeft, inside positive and negative lookbehinds) and corpus patterns x options x inputs of 0-60 runes (pattern-directed, repeated) x stack limits L drawn from {0..200} plus {256, 1000, 100000} and the unlimited setting -1; one evaluation = one (pattern,input,L): the result under L equals the unlimited result or the error is ErrBacktrackingStackLimit, nothing panics, the allocated backtracking stack (private state via the scan-stats hook, and the pooled state after public calls) never exceeds L slots, success at L implies success at every larger generated L', and after every call the same Regexp answers a probe like a freshly compiled one; non-trivial = for this (pattern,input) some generated L gives the limit error and some larger L succeeds (the limit actually bites); distinct = hash of (pattern, options, input, L)",
		map[string]float64{"limit-error": 0.15, "success-under-finite-L": 0.25, "bites/inputs": 0.2},
		"'unlimited' is OptionMaxBacktrackingStackSize(-1)")
	h.Ceiling("compile-error", 0.25)
	h.Main(m)
}

func gen1(t *rapid.T) Case {
	cfg := gen.Cfg{Depth: 4, Full: true, Inline: "ims"}
	var c Case
	if rapid.IntRange(0, 5).Draw(t, "deep") != 0 {
		o, base := gen.FullOpts(t, true, false, true)
		o &^= regexp2.IgnorePatternWhitespace
		base.X = false
		// deep shape: nested groups with loops and alternations
		var deep func(d int) *ast.Node
		deep = func(d int) *ast.Node {
			if d <= 0 {
				return gen.Pattern(t, gen.Cfg{Depth: 1})
			}
			switch rapid.IntRange(0, 4).Draw(t, "deepk") {
			case 0:
				q := ast.Quant(ast.Group(ast.GCap, deep(d-1)), rapid.IntRange(0, 2).Draw(t, "qmin"), -1, rapid.Bool().Draw(t, "qlazy"))
				if rapid.Bool().Draw(t, "counted") {
					q.Max = q.Min + rapid.IntRange(1, 4).Draw(t, "qspan")
				}
				return q
			case 1:
				return ast.Alt(deep(d-1), deep(d-1), gen.Pattern(t, gen.Cfg{Depth: 1}))
			case 2:
				return ast.Seq(deep(d-1), ast.Group(rapid.SampledFrom([]ast.GKind{ast.GLookahead, ast.GNegLookahead, ast.GLookbehind, ast.GAtomic}).Draw(t, "look"), deep(d-1)))
			case 3:
				return ast.Seq(ast.Quant(ast.Class(gen.ClassExpr(t, gen.Cfg{}, 0)), 0, -1, rapid.Bool().Draw(t, "lz")), deep(d-1))
			default:
				return ast.Seq(deep(d-1), deep(d-1))
			}
		}
		root := deep(rapid.IntRange(2, 4).Draw(t, "deepd"))
		if rapid.IntRange(0, 4).Draw(t, "chain") == 0 {
			// a run of 3-14 consecutive single-character loops (each leaves one backtracking frame),
			// left-to-right, under RightToLeft, or repeated inside a lookbehind: the reserve the
			// interpreter keeps per attempt is computed from the program's count of such opcodes
			k := rapid.IntRange(3, 14).Draw(t, "chainlen")
			chain := ast.Seq()
			for i := 0; i < k; i++ {
				lo := rune('a' + i%6)
				var atom *ast.Node
				switch rapid.IntRange(0, 2).Draw(t, "chainatom") {
				case 0:
					atom = ast.Class(&cls.Expr{Items: []cls.Item{{Kind: cls.Char, Lo: lo}, {Kind: cls.Char, Lo: lo + 1}}})
				case 1:
					atom = ast.Lit(lo)
				default:
					atom = ast.Class(&cls.Expr{Neg: true, Items: []cls.Item{{Kind: cls.Char, Lo: 'x'}, {Kind: cls.Char, Lo: lo + 2}}})
				}
				chain.Kids = append(chain.Kids, ast.Quant(atom, 0, -1, rapid.IntRange(0, 3).Draw(t, "chainlazy") == 0))
			}
			chain.Kids = append(chain.Kids, ast.Lit('x'))
			switch rapid.IntRange(0, 2).Draw(t, "chainwrap") {
			case 0:
				root = chain
			case 1:
				root = ast.Seq(chain, ast.Group(ast.GLookbehind, chain.Clone()))
			default:
				root = ast.Seq(ast.Group(ast.GCap, chain), ast.Group(ast.GNegLookbehind, ast.Seq(chain.Clone(), ast.Lit('q'))))
			}
			if rapid.Bool().Draw(t, "chainrtl") {
				o |= regexp2.RightToLeft
			}
		}
		gen.Resolve(t, root, base, false, cfg)
		c.Spec = eng.Spec{Options: int32(o), Pattern: ast.Print(root, ast.PrintOpts{})}
		c.AST = root
	} else {
		spec, root, _ := gen.FullSpec(t, cfg, true, false, true)
		c.Spec, c.AST = spec, root
	}
	alpha := []rune("ab1 \n")
	if c.AST != nil {
		alpha = gen.Alphabet(c.AST, false, 8)
	}
	for i := 0; i < 3; i++ {
		var in []rune
		if c.AST != nil {
			in = gen.Directed(t, c.AST, false, alpha, false, 20)
		} else {
			in = gen.Random(t, alpha, 12)
		}
		// repeat to create backtracking demand
		rep := rapid.IntRange(1, 4).Draw(t, "repeat")
		var long []rune
		for k := 0; k < rep && len(long)+len(in) <= 60; k++ {
			long = append(long, in...)
		}
		c.Inputs = append(c.Inputs, string(long))
	}
	if len(c.Inputs) > 0 && rapid.Bool().Draw(t, "again") {
		// the same input once more: the second call runs on an interpreter state whose stack the first call
		// already grew (possibly to the limit), and must come to the same verdict
		c.Inputs = append(c.Inputs, c.Inputs[rapid.IntRange(0, len(c.Inputs)-1).Draw(t, "againwhich")])
	}
	set := map[int]bool{0: true, 1: true, 2: true, 63: true, 64: true, 65: true, 100: true, 128: true, 256: true, 1000: true, 100000: true}
	for i := 0; i < 12; i++ {
		set[rapid.IntRange(0, 200).Draw(t, "L")] = true
	}
	for l := range set {
		c.Limits = append(c.Limits, l)
	}
	sort.Ints(c.Limits)
	return c
}

type failure struct {
	red Case
	msg string
}

func (f *failure) Error() string { return f.msg }

func check(c Case) error {
	unl := -1
	specU := c.Spec
	specU.StackLimit = &unl
	reU, err := specU.Compile()
	if err != nil {
		h.Discard("compile-error")
		return nil
	}
	fresh, _ := c.Spec.Compile() // default limit: the probe reference
	probe := []rune("ab a\n1")
	pm, perr := fresh.FindRunesMatch(probe)
	probeWant := canon.Desc(fresh, pm, perr)
	type lim struct {
		L  int
		re *regexp2.Regexp
	}
	var lims []lim
	for _, l := range c.Limits {
		l := l
		sp := c.Spec
		sp.StackLimit = &l
		re, err := sp.Compile()
		if err != nil {
			return &failure{c, fmt.Sprintf("pattern %q compiles without a limit but not with limit %d: %v", c.Spec.Pattern, l, err)}
		}
		lims = append(lims, lim{l, re})
	}
	for _, s := range c.Inputs {
		r := []rune(s)
		mU, errU := reU.FindRunesMatch(r)
		if errU != nil {
			h.Discard("unlimited-" + canon.ErrClass(errU))
			continue
		}
		want := canon.FromMatch(reU, mU).String()
		h.Label("inputs")
		firstSuccess := -1
		sawError := false
		bites := false
		for _, lm := range lims {
			h.Eval()
			fail := func(msg string) error {
				red := c
				red.Inputs, red.Limits = []string{s}, []int{lm.L}
				return &failure{red, fmt.Sprintf("pattern %q opts=%s input=%q limit=%d: %s", c.Spec.Pattern, eng.OptString(c.Spec.Options), s, lm.L, msg)}
			}
			var m *regexp2.Match
			var err error
			if perr := h.Safely(func() error { m, err = lm.re.FindRunesMatch(r); return nil }); perr != nil {
				return fail("FindRunesMatch " + perr.Error())
			}
			okNow := false
			switch {
			case err == regexp2.ErrBacktrackingStackLimit:
				sawError = true
				h.Label("limit-error")
				if firstSuccess >= 0 {
					return fail(fmt.Sprintf("limit error although the smaller limit %d succeeded", firstSuccess))
				}
			case err != nil:
				if canon.ErrClass(err) == "timeout" {
					// a catastrophic generated pattern: every further limit would cost the full safety timeout again
					h.Discard("timeout")
					return nil
				}
				return fail("unexpected error " + err.Error())
			default:
				if got := canon.FromMatch(lm.re, m).String(); got != want {
					return fail(fmt.Sprintf("result %s, unlimited result %s", got, want))
				}
				okNow = true
				h.Label("success-under-finite-L")
				if firstSuccess < 0 {
					firstSuccess = lm.L
					if sawError {
						bites = true
					}
				}
			}
			// the pooled interpreter state never holds more than L slots
			if cap := regexp2.VerifPooledTrackCap(lm.re); cap > lm.L {
				return fail(fmt.Sprintf("pooled backtracking stack has %d slots", cap))
			}
			// private state through the unmodified scan loop
			var sm *regexp2.Match
			var serr error
			var tc int
			if perr := h.Safely(func() error { sm, serr, tc, _ = regexp2.VerifScanStats(lm.re, r, -1); return nil }); perr != nil {
				return fail("scan " + perr.Error())
			}
			if tc > lm.L {
				return fail(fmt.Sprintf("scan allocated a backtracking stack of %d slots", tc))
			}
			if serr == nil && okNow {
				if got := canon.FromMatch(lm.re, sm).String(); got != want {
					return fail(fmt.Sprintf("private-state scan gives %s, unlimited result %s", got, want))
				}
			}
			if (serr == regexp2.ErrBacktrackingStackLimit) != (err == regexp2.ErrBacktrackingStackLimit) {
				return fail(fmt.Sprintf("pooled call error=%v, fresh-state scan error=%v", err, serr))
			}
			// the Regexp stays usable
			pm, perr := lm.re.FindRunesMatch(probe)
			// (a timeout on either side is the engine's 400 ms safety net on a catastrophic pattern: wall-clock, not compared)
			if perr != regexp2.ErrBacktrackingStackLimit && canon.ErrClass(perr) != "timeout" && !strings.Contains(probeWant, "timeout") {
				if got := canon.Desc(lm.re, pm, perr); got != probeWant {
					return fail(fmt.Sprintf("after the call the probe gives %s, a fresh Regexp gives %s", got, probeWant))
				}
			}
			if sawError || okNow {
				key := fmt.Sprintf("%s|%d|%q|%d", c.Spec.Pattern, c.Spec.Options, s, lm.L)
				if bites || err == regexp2.ErrBacktrackingStackLimit {
					h.NonTrivial(key, func() any {
						return map[string]any{"pattern": c.Spec.Pattern, "options": eng.OptString(c.Spec.Options), "input": s, "limit": lm.L, "limit_error": err == regexp2.ErrBacktrackingStackLimit}
					})
				}
			}
		}
		h.LabelIf(bites, "bites")
	}
	return nil
}

func prop(t *rapid.T) {
	c := gen1(t)
	if err := h.Safely(func() error { return check(c) }); err != nil {
		red := c
		if f, ok := err.(*failure); ok {
			red = f.red
		}
		h.Violation(t, red, "%s", err.Error())
	}
}

func TestProp(t *testing.T) { rapid.Check(t, prop) }

// FuzzProp lets Go's coverage-guided mutator drive the structured generators (thorough tier).
func FuzzProp(f *testing.F) { f.Fuzz(rapid.MakeFuzz(prop)) }

func TestReplay(t *testing.T) { h.RunReplay(t, check) }
