package c11

import (
	"fmt"
	"runtime"
	"sync"
	"sync/atomic"
	"testing"
	"time"

	regexp2 "github.com/dlclark/regexp2/v2"
	"pgregory.net/rapid"

	"verif/internal/calls"
	"verif/internal/h"
)

func init() { regexp2.SetTimeoutCheckPeriod(time.Millisecond) }

// Case is a generated workload.
type Case struct {
	Specs []int        `json:"specs"` // indexes into calls.Pool (shared Regexps)
	Calls []calls.Call `json:"calls"`
	Owner []int        `json:"owner"` // goroutine of each call
	Yield []bool       `json:"yield"` // runtime.Gosched before the call
	G     int          `json:"goroutines"`
	Procs int          `json:"gomaxprocs"`
	// ClockRace, when set, runs first: on a stopped timeout clock one catastrophic match with a long
	// timeout and several quick matches with short timeouts are released together by a spin barrier.
	ClockRace *ClockRace `json:"clock_race,omitempty"`
}

type ClockRace struct {
	LongMs   int   `json:"long_ms"`
	ShortsMs []int `json:"shorts_ms"`
	Bursts   int   `json:"bursts"`         // cheap bursts: quick matches only, clock-end invariant checked
	Real     bool  `json:"real,omitempty"` // one burst whose long-timeout match is catastrophic and must time out
}

// clockBurst stops the clock and releases one match with a long timeout and several with short timeouts
// through a spin barrier. long is the input of the long-timeout match.
func clockBurst(cr *ClockRace, long string) (msg string) {
	lre := regexp2.MustCompile(`(a+)+$`)
	lre.MatchTimeout = time.Duration(cr.LongMs) * time.Millisecond
	shorts := make([]*regexp2.Regexp, len(cr.ShortsMs))
	for i, ms := range cr.ShortsMs {
		shorts[i] = regexp2.MustCompile(`a+`)
		shorts[i].MatchTimeout = time.Duration(ms) * time.Millisecond
	}
	regexp2.StopTimeoutClock()
	var gate atomic.Bool
	var ready atomic.Int32
	type res struct {
		err error
		el  time.Duration
	}
	longDone := make(chan res, 1)
	shortErr := make([]error, len(shorts))
	var wg sync.WaitGroup
	go func() {
		ready.Add(1)
		for !gate.Load() {
		}
		st := time.Now()
		_, err := lre.MatchString(long)
		longDone <- res{err, time.Since(st)}
	}()
	for i := range shorts {
		wg.Add(1)
		go func(i int) {
			defer wg.Done()
			ready.Add(1)
			for !gate.Load() {
			}
			_, shortErr[i] = shorts[i].MatchString("xxaaa")
		}(i)
	}
	for int(ready.Load()) < len(shorts)+1 {
		runtime.Gosched()
	}
	t0 := time.Now()
	gate.Store(true)
	wg.Wait()
	if len(long) <= 20 {
		r := <-longDone
		if r.err != nil {
			return fmt.Sprintf("clock race: quick match with a %d ms timeout returned %v after %v", cr.LongMs, r.err, r.el)
		}
		// every deadline that was handed out must be covered by the clock: a clock that is set to stop before
		// t0 + long would leave a long-running match with that timeout without its timeout
		if end := regexp2.VerifClockEnd(); !end.IsZero() && end.Before(t0.Add(time.Duration(cr.LongMs)*time.Millisecond-20*time.Millisecond)) {
			return fmt.Sprintf("clock race: after timed matches with timeouts %d ms and %v ms started together on a stopped clock, the clock is set to stop %v after their start, before the %d ms deadline", cr.LongMs, cr.ShortsMs, end.Sub(t0), cr.LongMs)
		}
	} else {
		select {
		case r := <-longDone:
			if r.err == nil || !calls.IsTimeoutish("error:"+r.err.Error()) {
				return fmt.Sprintf("clock race: catastrophic match with a %d ms timeout returned err=%v after %v", cr.LongMs, r.err, r.el)
			}
			// (how early or late a timeout may fire is C14's subject: a deadline is dated from the clock goroutine's
			// last tick, so it is early by however long that goroutine was descheduled - 81 ms were seen on a
			// machine with a load of 40; only a grossly early timeout is reported here)
			if r.el < time.Duration(cr.LongMs)*time.Millisecond/2 {
				return fmt.Sprintf("clock race: the %d ms timeout fired after %v", cr.LongMs, r.el)
			}
		case <-time.After(time.Duration(cr.LongMs)*time.Millisecond + 4*time.Second):
			return fmt.Sprintf("clock race: catastrophic match with a %d ms timeout is still running %d ms + 4 s after its start, next to quick matches with timeouts %v ms (the timeout clock stopped while its deadline was pending)", cr.LongMs, cr.LongMs, cr.ShortsMs)
		}
	}
	for i, err := range shortErr {
		// a quick match may legitimately be descheduled past a few-ms deadline under load: tolerated like the
		// other timeouts of this check unless it is not a timeout at all
		if err != nil && !calls.IsTimeoutish("error:"+err.Error()) {
			return fmt.Sprintf("clock race: quick match %d returned %v", i, err)
		}
	}
	return ""
}

// clockRace checks that concurrent deadlines of different lengths do not disturb each other.
func clockRace(cr *ClockRace) string {
	for b := 0; b < cr.Bursts; b++ {
		if msg := clockBurst(cr, "xxaaa"); msg != "" {
			return fmt.Sprintf("%s (burst %d)", msg, b)
		}
	}
	if cr.Real {
		return clockBurst(cr, "aaaaaaaaaaaaaaaaaaaaaaaaaaaaaaaaaaaaaaaaaaaa!")
	}
	return ""
}

func TestMain(m *testing.M) {
	h.Setup("C11",
		"generated workloads: 3-6 shared Regexps from a pool of 11 (bool-only program, balancing groups, stack limit 64, 30 ms timeout on a catastrophic pattern, RightToLeft, replacement cache of 2, ...) and 150-600 calls over 13 entry points (bool, find, iterate, find-all, Replace with more distinct replacements than the cache holds, ReplaceFunc, Split, adapter, timed, stack-limited) with inputs crossing the pooled-buffer size classes, assigned to G in {2,4,8,32} goroutines under GOMAXPROCS in {1,2,4,16} with generated runtime.Gosched points; 1 workload in 2 starts with 20-60 clock-race bursts (timeout clock stopped, one match with a 1.2-1.5 s timeout and 2-6 with 5-20 ms timeouts released by a spin barrier; afterwards the clock must be set to run past the long deadline - read through a verif hook -; in 1 of 4 of these workloads the long match is catastrophic and must end with a timeout error, neither early nor never); expected results are computed sequentially on fresh Regexps first; every concurrent result must equal its expected value; the binary is built with -race and any race report fails the run; one evaluation = one call executed concurrently; non-trivial = a workload in which at least two goroutines used the same Regexp and at least one call of each family (bool, find, find-all, replace, split, adapter) ran; distinct = hash of the workload",
		map[string]float64{"shared-by-2+": 0.9, "all-families": 0.8},
		"interleavings are sampled by the Go scheduler under stress, not enumerated; the race detector only reports races on executions that happen",
		"a concurrent timeout on the 30 ms-timeout Regexp where the sequential run had none is tolerated and counted (timeouts are wall-clock and descheduling is not the engine's fault)")
	h.Main(m)
}

func gen1(t *rapid.T) Case {
	var c Case
	perm := rapid.Permutation([]int{0, 1, 2, 3, 4, 5, 6, 7, 8, 9, 10}).Draw(t, "specs")
	c.Specs = perm[:rapid.IntRange(3, 6).Draw(t, "nspecs")]
	c.G = rapid.SampledFrom([]int{2, 4, 8, 32}).Draw(t, "G")
	c.Procs = rapid.SampledFrom([]int{1, 2, 4, 16}).Draw(t, "procs")
	n := rapid.IntRange(150, 600).Draw(t, "ncalls")
	if h.Thorough() {
		n = rapid.IntRange(200, 2000).Draw(t, "ncallsT")
	}
	if rapid.IntRange(0, 1).Draw(t, "clockrace") == 0 {
		cr := &ClockRace{LongMs: rapid.SampledFrom([]int{1200, 1500}).Draw(t, "racelong"), Bursts: rapid.IntRange(20, 60).Draw(t, "racebursts"), Real: rapid.IntRange(0, 3).Draw(t, "racereal") == 0}
		k := rapid.IntRange(2, 6).Draw(t, "raceshorts")
		for j := 0; j < k; j++ {
			cr.ShortsMs = append(cr.ShortsMs, rapid.SampledFrom([]int{5, 10, 20}).Draw(t, "raceshort"))
		}
		c.ClockRace = cr
	}
	catastrophic := 0
	for i := 0; i < n; i++ {
		cl := calls.Call{
			Re:   rapid.IntRange(0, len(c.Specs)-1).Draw(t, "re"),
			Kind: rapid.SampledFrom(calls.Kinds).Draw(t, "kind"),
			Core: rapid.SampledFrom(calls.Cores).Draw(t, "core"),
			Rep:  rapid.IntRange(0, len(calls.Replacements)-1).Draw(t, "rep"),
			N:    rapid.IntRange(0, 40).Draw(t, "n"),
		}
		spec := calls.Pool[c.Specs[cl.Re]]
		if spec.Name == "timeout" {
			// at most three truly catastrophic calls per workload (each costs the full timeout)
			if cl.Core == "aaaaaaaaaaaaaaaaaaaaaaaaaaaaaaaaaaaaaab" {
				catastrophic++
				if catastrophic > 3 {
					cl.Core = "aaa"
				}
			}
		} else if rapid.IntRange(0, 9).Draw(t, "big") == 0 {
			cl.Class = rapid.IntRange(1, 3).Draw(t, "class")
			cl.Pad = rapid.IntRange(0, 200).Draw(t, "pad")
			cl.Tail = rapid.Bool().Draw(t, "tail")
		}
		c.Calls = append(c.Calls, cl)
		c.Owner = append(c.Owner, rapid.IntRange(0, c.G-1).Draw(t, "owner"))
		c.Yield = append(c.Yield, rapid.IntRange(0, 3).Draw(t, "yield") == 0)
	}
	if rapid.Bool().Draw(t, "storm") {
		// every goroutine issues the same Replace (same Regexp, same replacement string, same input) several
		// times: whatever is cached per replacement string is read by all of them at once
		re := rapid.IntRange(0, len(c.Specs)-1).Draw(t, "stormre")
		for i, sp := range c.Specs {
			if calls.Pool[sp].Name == "rtl" && rapid.Bool().Draw(t, "stormrtl") {
				re = i // the right-to-left replace path is a separate piece of code
			}
		}
		if calls.Pool[c.Specs[re]].TimeoutMs == 0 {
			rep := rapid.SampledFrom([]int{3, 5, 10, 13, 16}).Draw(t, "stormrep") // replacements with several pieces
			core := rapid.SampledFrom([]string{"12a 345b 6c", "a1 b2 c3 d4", "ab ab (()) 1x"}).Draw(t, "stormcore")
			k := rapid.IntRange(4, 10).Draw(t, "stormk")
			for g := 0; g < c.G; g++ {
				for j := 0; j < k; j++ {
					c.Calls = append(c.Calls, calls.Call{Re: re, Kind: "Replace", Core: core, Rep: rep})
					c.Owner = append(c.Owner, g)
					c.Yield = append(c.Yield, false)
				}
			}
		}
	}
	return c
}

// run executes the workload; it returns the first mismatch and the number of tolerated timeouts.
func run(c Case) (string, int) {
	if c.ClockRace != nil {
		if msg := clockRace(c.ClockRace); msg != "" {
			return msg, 0
		}
	}
	// expected: sequential, fresh Regexp per call
	want := make([]string, len(c.Calls))
	for i, cl := range c.Calls {
		want[i] = calls.Exec(calls.Pool[c.Specs[cl.Re]].Compile(), cl)
	}
	shared := make([]*regexp2.Regexp, len(c.Specs))
	for i, s := range c.Specs {
		shared[i] = calls.Pool[s].Compile()
	}
	got := make([]string, len(c.Calls))
	old := runtime.GOMAXPROCS(c.Procs)
	defer runtime.GOMAXPROCS(old)
	var wg sync.WaitGroup
	start := make(chan struct{})
	for g := 0; g < c.G; g++ {
		wg.Add(1)
		go func(g int) {
			defer wg.Done()
			<-start
			for i, cl := range c.Calls {
				if c.Owner[i] != g {
					continue
				}
				if c.Yield[i] {
					runtime.Gosched()
				}
				got[i] = calls.Exec(shared[cl.Re], cl)
			}
		}(g)
	}
	close(start)
	wg.Wait()
	tolerated := 0
	for i := range c.Calls {
		if got[i] == want[i] {
			continue
		}
		spec := calls.Pool[c.Specs[c.Calls[i].Re]]
		if spec.TimeoutMs > 0 && (calls.IsTimeoutish(got[i]) || calls.IsTimeoutish(want[i])) {
			tolerated++
			continue
		}
		return fmt.Sprintf("call %d (%s on %s %q, core %q class %d) by goroutine %d of %d (GOMAXPROCS=%d): concurrent result %.300s, sequential result on a fresh Regexp %.300s",
			i, c.Calls[i].Kind, spec.Name, spec.Pattern, c.Calls[i].Core, c.Calls[i].Class, c.Owner[i], c.G, c.Procs, got[i], want[i]), tolerated
	}
	return "", tolerated
}

func family(k string) string {
	switch k {
	case "MatchString", "MatchRunes":
		return "bool"
	case "FindStringMatch", "FindRunesMatch", "FindStringMatchStartingAt", "Iterate":
		return "find"
	case "FindAllStringIndex", "FindAllRunesIndex":
		return "findall"
	case "Replace", "ReplaceFunc":
		return "replace"
	case "Split":
		return "split"
	}
	return "adapter"
}

func TestProp(t *testing.T) {
	rapid.Check(t, func(t *rapid.T) {
		c := gen1(t)
		h.Current(c)
		msg, tolerated := run(c)
		h.EvalN(len(c.Calls))
		if tolerated > 0 {
			h.LabelN("tolerated-timeout-jitter", tolerated)
		}
		if msg != "" {
			h.Violation(t, c, "%s", msg)
		}
		users := map[int]map[int]bool{}
		fams := map[string]bool{}
		for i, cl := range c.Calls {
			if users[cl.Re] == nil {
				users[cl.Re] = map[int]bool{}
			}
			users[cl.Re][c.Owner[i]] = true
			fams[family(cl.Kind)] = true
		}
		sharedBy2 := false
		for _, u := range users {
			if len(u) >= 2 {
				sharedBy2 = true
			}
		}
		if sharedBy2 {
			h.LabelN("shared-by-2+", len(c.Calls))
		}
		if len(fams) == 6 {
			h.LabelN("all-families", len(c.Calls))
		}
		h.Label(fmt.Sprintf("G=%d", c.G))
		h.Label(fmt.Sprintf("procs=%d", c.Procs))
		if sharedBy2 && len(fams) == 6 {
			h.NonTrivial(fmt.Sprintf("%v|%d|%d|%d|%+v", c.Specs, c.G, c.Procs, len(c.Calls), c.Calls[:8]), func() any {
				return map[string]any{"regexps": c.Specs, "goroutines": c.G, "gomaxprocs": c.Procs, "calls": len(c.Calls), "first_calls": c.Calls[:3]}
			})
		}
	})
}

func TestReplay(t *testing.T) {
	h.RunReplay(t, func(c Case) error {
		for i := 0; i < 5; i++ {
			if msg, _ := run(c); msg != "" {
				return fmt.Errorf("%s", msg)
			}
		}
		return nil
	})
}
