package c11

import (
	"fmt"
	"runtime"
	"sync"
	"testing"
	"time"

	regexp2 "github.com/dlclark/regexp2/v2"
	"pgregory.net/rapid"

	"verif/internal/calls"
	"verif/internal/h"
)

func init() { regexp2.SetTimeoutCheckPeriod(time.Millisecond) }

// Case is a generated workload.
type Case struct {
	Specs []int        `json:"specs"` // indexes into calls.Pool (shared Regexps)
	Calls []calls.Call `json:"calls"`
	Owner []int        `json:"owner"` // goroutine of each call
	Yield []bool       `json:"yield"` // runtime.Gosched before the call
	G     int          `json:"goroutines"`
	Procs int          `json:"gomaxprocs"`
}

func TestMain(m *testing.M) {
	h.Setup("C11",
		"generated workloads: 3-6 shared Regexps from a pool of 9 (bool-only program, balancing groups, stack limit 64, 30 ms timeout on a catastrophic pattern, RightToLeft, replacement cache of 2, ...) and 150-600 calls over 13 entry points (bool, find, iterate, find-all, Replace with more distinct replacements than the cache holds, ReplaceFunc, Split, adapter, timed, stack-limited) with inputs crossing the pooled-buffer size classes, assigned to G in {2,4,8,32} goroutines under GOMAXPROCS in {1,2,4,16} with generated runtime.Gosched points; expected results are computed sequentially on fresh Regexps first; every concurrent result must equal its expected value; the binary is built with -race and any race report fails the run; one evaluation = one call executed concurrently; non-trivial = a workload in which at least two goroutines used the same Regexp and at least one call of each family (bool, find, find-all, replace, split, adapter) ran; distinct = hash of the workload",
		map[string]float64{"shared-by-2+": 0.9, "all-families": 0.8},
		"interleavings are sampled by the Go scheduler under stress, not enumerated; the race detector only reports races on executions that happen",
		"a concurrent timeout on the 30 ms-timeout Regexp where the sequential run had none is tolerated and counted (timeouts are wall-clock and descheduling is not the engine's fault)")
	h.Main(m)
}

func gen1(t *rapid.T) Case {
	var c Case
	perm := rapid.Permutation([]int{0, 1, 2, 3, 4, 5, 6, 7, 8}).Draw(t, "specs")
	c.Specs = perm[:rapid.IntRange(3, 6).Draw(t, "nspecs")]
	c.G = rapid.SampledFrom([]int{2, 4, 8, 32}).Draw(t, "G")
	c.Procs = rapid.SampledFrom([]int{1, 2, 4, 16}).Draw(t, "procs")
	n := rapid.IntRange(150, 600).Draw(t, "ncalls")
	if h.Thorough() {
		n = rapid.IntRange(200, 2000).Draw(t, "ncallsT")
	}
	catastrophic := 0
	for i := 0; i < n; i++ {
		cl := calls.Call{
			Re:   rapid.IntRange(0, len(c.Specs)-1).Draw(t, "re"),
			Kind: rapid.SampledFrom(calls.Kinds).Draw(t, "kind"),
			Core: rapid.SampledFrom(calls.Cores).Draw(t, "core"),
			Rep:  rapid.IntRange(0, len(calls.Replacements)-1).Draw(t, "rep"),
			N:    rapid.IntRange(0, 40).Draw(t, "n"),
		}
		spec := calls.Pool[c.Specs[cl.Re]]
		if spec.Name == "timeout" {
			// at most three truly catastrophic calls per workload (each costs the full timeout)
			if cl.Core == "aaaaaaaaaaaaaaaaaaaaaaaaaaaaaaaaaaaaaab" {
				catastrophic++
				if catastrophic > 3 {
					cl.Core = "aaa"
				}
			}
		} else if rapid.IntRange(0, 9).Draw(t, "big") == 0 {
			cl.Class = rapid.IntRange(1, 3).Draw(t, "class")
			cl.Pad = rapid.IntRange(0, 200).Draw(t, "pad")
			cl.Tail = rapid.Bool().Draw(t, "tail")
		}
		c.Calls = append(c.Calls, cl)
		c.Owner = append(c.Owner, rapid.IntRange(0, c.G-1).Draw(t, "owner"))
		c.Yield = append(c.Yield, rapid.IntRange(0, 3).Draw(t, "yield") == 0)
	}
	return c
}

// run executes the workload; it returns the first mismatch and the number of tolerated timeouts.
func run(c Case) (string, int) {
	// expected: sequential, fresh Regexp per call
	want := make([]string, len(c.Calls))
	for i, cl := range c.Calls {
		want[i] = calls.Exec(calls.Pool[c.Specs[cl.Re]].Compile(), cl)
	}
	shared := make([]*regexp2.Regexp, len(c.Specs))
	for i, s := range c.Specs {
		shared[i] = calls.Pool[s].Compile()
	}
	got := make([]string, len(c.Calls))
	old := runtime.GOMAXPROCS(c.Procs)
	defer runtime.GOMAXPROCS(old)
	var wg sync.WaitGroup
	start := make(chan struct{})
	for g := 0; g < c.G; g++ {
		wg.Add(1)
		go func(g int) {
			defer wg.Done()
			<-start
			for i, cl := range c.Calls {
				if c.Owner[i] != g {
					continue
				}
				if c.Yield[i] {
					runtime.Gosched()
				}
				got[i] = calls.Exec(shared[cl.Re], cl)
			}
		}(g)
	}
	close(start)
	wg.Wait()
	tolerated := 0
	for i := range c.Calls {
		if got[i] == want[i] {
			continue
		}
		spec := calls.Pool[c.Specs[c.Calls[i].Re]]
		if spec.TimeoutMs > 0 && (calls.IsTimeoutish(got[i]) || calls.IsTimeoutish(want[i])) {
			tolerated++
			continue
		}
		return fmt.Sprintf("call %d (%s on %s %q, core %q class %d) by goroutine %d of %d (GOMAXPROCS=%d): concurrent result %.300s, sequential result on a fresh Regexp %.300s",
			i, c.Calls[i].Kind, spec.Name, spec.Pattern, c.Calls[i].Core, c.Calls[i].Class, c.Owner[i], c.G, c.Procs, got[i], want[i]), tolerated
	}
	return "", tolerated
}

func family(k string) string {
	switch k {
	case "MatchString", "MatchRunes":
		return "bool"
	case "FindStringMatch", "FindRunesMatch", "FindStringMatchStartingAt", "Iterate":
		return "find"
	case "FindAllStringIndex", "FindAllRunesIndex":
		return "findall"
	case "Replace", "ReplaceFunc":
		return "replace"
	case "Split":
		return "split"
	}
	return "adapter"
}

func TestProp(t *testing.T) {
	rapid.Check(t, func(t *rapid.T) {
		c := gen1(t)
		h.Current(c)
		msg, tolerated := run(c)
		h.EvalN(len(c.Calls))
		if tolerated > 0 {
			h.LabelN("tolerated-timeout-jitter", tolerated)
		}
		if msg != "" {
			h.Violation(t, c, "%s", msg)
		}
		users := map[int]map[int]bool{}
		fams := map[string]bool{}
		for i, cl := range c.Calls {
			if users[cl.Re] == nil {
				users[cl.Re] = map[int]bool{}
			}
			users[cl.Re][c.Owner[i]] = true
			fams[family(cl.Kind)] = true
		}
		sharedBy2 := false
		for _, u := range users {
			if len(u) >= 2 {
				sharedBy2 = true
			}
		}
		if sharedBy2 {
			h.LabelN("shared-by-2+", len(c.Calls))
		}
		if len(fams) == 6 {
			h.LabelN("all-families", len(c.Calls))
		}
		h.Label(fmt.Sprintf("G=%d", c.G))
		h.Label(fmt.Sprintf("procs=%d", c.Procs))
		if sharedBy2 && len(fams) == 6 {
			h.NonTrivial(fmt.Sprintf("%v|%d|%d|%d|%+v", c.Specs, c.G, c.Procs, len(c.Calls), c.Calls[:8]), func() any {
				return map[string]any{"regexps": c.Specs, "goroutines": c.G, "gomaxprocs": c.Procs, "calls": len(c.Calls), "first_calls": c.Calls[:3]}
			})
		}
	})
}

func TestReplay(t *testing.T) {
	h.RunReplay(t, func(c Case) error {
		for i := 0; i < 5; i++ {
			if msg, _ := run(c); msg != "" {
				return fmt.Errorf("%s", msg)
			}
		}
		return nil
	})
}
