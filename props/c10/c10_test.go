package c10

import (
	"fmt"
	"strings"
	"testing"

	"pgregory.net/rapid"

	"verif/internal/ast"
	"verif/internal/corpus"
	"verif/internal/gen"
	"verif/internal/h"
)

var hostile = []string{`[a-z-[aeiou]]`, `[a-z]`, `[a-z-[b-d-[c]]]`, `[a-z-[b-d]]`, `[\d-[0]]`, `[\d]`, `[\w-[_]]`, `[^a-z-[q]]`, `[^a-z]`, `\p{`, `(?<`, `{2147483647}`, `[z-a]`, `\x{110000}`, `$10`, `${`, `(?(`, `(?<a-b>`, `\k<`, `(?P<`, `(?P=`, `[[:alpha:]]`, `[a-[`,
	`\c`, `\u12`, `\x`, `(?i`, `(?#`, `|`, `)`, `(`, `*`, `+?`, `{,}`, `{1,0}`, `\1`, `\99`, `(?>`, `(?<=`, `(?<!`, `(?=`, `(?!`, `\G`, `\Z`, `\b`, `\B`,
	`[^`, `]`, `-`, `\`, `.`, `a`, `b`, `0`, ` `, "\n", `#`, `\p{L}`, `\P{Greek}`, `\w`, `\S`, `\d`, "\xff", "\x00", `😀`, `é`, `(?'n'`, `(?<1>`, `(?<n>`, `\k<n>`,
	`(?(1)`, `(?(n)`, `{0}`, `{2}`, `{2,}`, `??`, `*?`, `(?x)`, `(?-i)`, `(?n:`, `\e`, `\a`, `\07`, `\400`, `\p{IsGreek}`, `\pL`, `[\d-z]`, `[a-\w]`, `(?:`, `\Q`, `\E`, `$`, `^`}

// propWords are the words the \p{...} name resolution knows (categories, scripts, binary and
// enumerated properties, their aliases and value aliases) plus near misses.
var propWords = []string{"L", "Lu", "Nd", "Greek", "IsGreek", "Latin", "Emoji", "emoji", "Math", "math", "extpict", "Extended_Pictographic",
	"sb", "wb", "gcb", "Sentence_Break", "Word_Break", "Grapheme_Cluster_Break", "sentencebreak", "wordbreak", "graphemeclusterbreak",
	"ALetter", "aletter", "Extend", "ex", "ri", "Regional_Indicator", "hebrewletter", "wsegspace", "extendnumlet", "ATerm", "at", "cr", "lf", "zwj", "lv", "lvt",
	"sc", "Script", "gc", "General_Category", "scx", "Any", "Assigned", "ASCII", "Cn", "Co", "Cs", "Other_Math", "White_Space", "ASCII_Hex_Digit", "L&", "LC", ""}

func genPropEscape(t *rapid.T) string {
	w := func() string {
		s := rapid.SampledFrom(propWords).Draw(t, "propword")
		switch rapid.IntRange(0, 5).Draw(t, "propcase") {
		case 0:
			s = strings.ToUpper(s)
		case 1:
			s = strings.ToLower(s)
		case 2:
			s = strings.ReplaceAll(s, "_", rapid.SampledFrom([]string{"", " ", "-", "__"}).Draw(t, "propsep"))
		}
		return s
	}
	name := w()
	switch rapid.IntRange(0, 4).Draw(t, "propform") {
	case 0:
		name += "=" + w()
	case 1:
		name += ":" + w()
	case 2:
		name = "^" + name
	}
	esc := rapid.SampledFrom([]string{`\p{`, `\P{`, `[\p{`, `[^\P{`, `(?i)\p{`, `[a-z-[\p{`}).Draw(t, "propesc") + name + "}"
	if strings.Contains(esc, "[") {
		esc += strings.Repeat("]", strings.Count(esc, "["))
	}
	return esc
}

// fragments of group constructs cut at every rune: the parser looks ahead a fixed number of runes
var truncated = []string{"(", "(?", "(?(", "(?(?", "(?(?<", "(?(?<=", "(?(?=", "(?(?!", "(?(?<!", "(?(?<n", "(?(?<n>", "(?(n", "(?(1", "(?<", "(?<=", "(?<!", "(?<n", "(?<n-", "(?<n-m", "(?<-", "(?'", "(?'n", "(?P", "(?P<", "(?P<n", "(?P=", "(?P=n", "(?i", "(?i-", "(?i-m", "(?i:", "(?#", "(?>", "(?:", "(?=", "(?!", "\\", "\\k", "\\k<", "\\k<n", "\\k'", "\\p", "\\p{", "\\p{L", "\\P", "\\x", "\\x{", "\\x{1", "\\u", "\\u0", "\\c", "\\0", "[", "[^", "[a", "[a-", "[a-z-[", "[[:", "[[:alpha", "[[:alpha:", "[\\", "[\\p{", "a{", "a{1", "a{1,", "a{1,2", "$", "${", "${n"}

func genPattern(t *rapid.T) string {
	switch rapid.IntRange(0, 10).Draw(t, "patsrc") {
	case 9:
		// a well-formed prefix followed by a construct cut short
		pre := ""
		if rapid.Bool().Draw(t, "truncpre") {
			pre = rapid.SampledFrom([]string{"a", "(x)", "(?<n>x)", "x|", "a*", "[a-z]", "(?:", "(", "\\b"}).Draw(t, "truncprefix")
		}
		return pre + rapid.SampledFrom(truncated).Draw(t, "truncated")
	case 10:
		// every prefix of a structured or corpus pattern is a pattern too
		var p string
		if rapid.Bool().Draw(t, "cutcorpus") {
			p = corpus.Patterns[rapid.IntRange(0, len(corpus.Patterns)-1).Draw(t, "corpus")].P
		} else {
			cfg := gen.Cfg{Depth: 3, Full: true, Inline: "imsnx"}
			root := gen.Pattern(t, cfg)
			gen.Resolve(t, root, ast.Opts{}, false, cfg)
			p = ast.Print(root, ast.PrintOpts{})
		}
		r := []rune(p)
		if len(r) == 0 {
			return p
		}
		return string(r[:rapid.IntRange(0, len(r)).Draw(t, "cutat")])
	case 8:
		s := genPropEscape(t)
		if rapid.Bool().Draw(t, "propmore") {
			s += rapid.SampledFrom(hostile).Draw(t, "piece") + genPropEscape(t)
		}
		return s
	case 0:
		return corpus.Patterns[rapid.IntRange(0, len(corpus.Patterns)-1).Draw(t, "corpus")].P
	case 1:
		// mutate a corpus pattern
		p := []byte(corpus.Patterns[rapid.IntRange(0, len(corpus.Patterns)-1).Draw(t, "corpus")].P)
		n := rapid.IntRange(1, 3).Draw(t, "nmut")
		for i := 0; i < n && len(p) > 0; i++ {
			pos := rapid.IntRange(0, len(p)-1).Draw(t, "mutpos")
			switch rapid.IntRange(0, 2).Draw(t, "mutkind") {
			case 0:
				p = append(p[:pos], p[pos+1:]...)
			case 1:
				ins := rapid.SampledFrom(hostile).Draw(t, "ins")
				p = append(p[:pos], append([]byte(ins), p[pos:]...)...)
			default:
				p[pos] = rapid.Byte().Draw(t, "byte")
			}
		}
		return string(p)
	case 2:
		return string(rapid.SliceOfN(rapid.Byte(), 0, 24).Draw(t, "rawpat"))
	case 4, 5:
		// structured patterns from the shared generators (reach engine states byte soup rarely reaches)
		cfg := gen.Cfg{Depth: 3, Full: true, Inline: "imsnx", Magic: true}
		var root *ast.Node
		if rapid.Bool().Draw(t, "accelpat") {
			root = gen.Accel(t, cfg)
		} else {
			root = gen.Pattern(t, cfg)
		}
		gen.Resolve(t, root, ast.Opts{}, false, cfg)
		return ast.Print(root, ast.PrintOpts{})
	case 3:
		// very small patterns from the most interaction-prone fragments
		small := []string{".", "\xff", "a", "b", "\\b", "^", "$", "*", "+", "?", "|", "(", ")", "\uFFFD", "é", "[", "]", "\\G", "\\z", "..", "a*", "\\d"}
		n := rapid.IntRange(1, 3).Draw(t, "nsmall")
		s := ""
		for i := 0; i < n; i++ {
			s += rapid.SampledFrom(small).Draw(t, "small")
		}
		return s
	default:
		n := rapid.IntRange(1, 8).Draw(t, "npieces")
		s := ""
		for i := 0; i < n; i++ {
			s += rapid.SampledFrom(hostile).Draw(t, "piece")
		}
		return s
	}
}

func genArgs(t *rapid.T) Args {
	a := Args{Pattern: genPattern(t)}
	if len(a.Pattern) > 64 {
		a.Pattern = a.Pattern[:64]
	}
	switch rapid.IntRange(0, 2).Draw(t, "insrc") {
	case 0:
		a.Input = rapid.SliceOfN(rapid.Byte(), 0, 24).Draw(t, "rawin")
	case 1:
		a.Input = []byte(a.Pattern)
	default:
		n := rapid.IntRange(0, 6).Draw(t, "ninp")
		for i := 0; i < n; i++ {
			a.Input = append(a.Input, rapid.SampledFrom([]string{"a", "b", "ab", "0", " ", "\n", "é", "😀", "\xff", "\xff", "\x80", "\uFFFD", "\x00", "aaaaaaaaaaaaaaaa", "A", "_", "-"}).Draw(t, "inpiece")...)
		}
	}
	a.Rep = rapid.SampledFrom([]string{"", "x", "$1", "${1}", "$10", "${", "$", "${n}", "$+", "$_", "$`$'", "$99999999999", "${999999999999}", "$$", "\xff$&"}).Draw(t, "rep")
	a.Opts = uint16(rapid.IntRange(0, 511).Draw(t, "opts"))
	if rapid.IntRange(0, 2).Draw(t, "plainopts") == 0 {
		a.Opts = 0
	}
	a.CBits = uint8(rapid.IntRange(0, 63).Draw(t, "cbits"))
	a.StartAt = rapid.SampledFrom([]int{-1, 0, 1, 2, 3, 5, 100, -2, -100, 1 << 40, -(1 << 40)}).Draw(t, "startat")
	a.Count = rapid.SampledFrom([]int{-1, 0, 1, 2, 3, 100, -2, -100, 1 << 40}).Draw(t, "count")
	return a
}

func TestMain(m *testing.M) {
	h.Setup("C10",
		"patterns: harvested corpus entries, byte-level mutations of them, concatenations of hostile fragments, raw bytes (<=64 bytes); inputs: raw bytes / the pattern itself / fragments incl. invalid UTF-8, NUL, astral (<=256 bytes); replacement strings incl. malformed $-references; all 2^9 option subsets and compile options incl. tiny stack limits; start offsets and counts incl. negative, huge and mid-rune values; every Regexp gets MatchTimeout=100ms; one evaluation = one argument tuple driven through Compile/MustCompile, 8 match calls with full iteration and accessor use, Replace/ReplaceFunc/Split, 22 adapter methods, Escape/Unescape; violation = panic, non-permitted error, or no return within 30 s; non-trivial = the pattern compiled and the match APIs ran, or the pattern was rejected with a parse error; distinct = hash of the argument tuple. The thorough tier adds native coverage-guided fuzzing of five targets.",
		map[string]float64{"compiled": 0.3, "rejected": 0.15},
		"negative rune values are outside the input domain (rune slices are built from strings)")
	h.Main(m)
}

func run(t h.Fataler, a Args) {
	h.Eval()
	h.Current(a)
	res, err := All(a)
	if err != nil {
		h.Violation(t, a, "pattern %q opts=%#x cbits=%#x input=%q rep=%q startAt=%d count=%d: %s", a.Pattern, a.Opts, a.CBits, string(a.Input), a.Rep, a.StartAt, a.Count, err.Error())
		return
	}
	if res.Compiled {
		h.Label("compiled")
	} else {
		h.Label("rejected")
	}
	h.NonTrivial(fmt.Sprintf("%q|%d|%d|%q|%q|%d|%d", a.Pattern, a.Opts, a.CBits, a.Input, a.Rep, a.StartAt, a.Count), func() any { return a })
}

func TestProp(t *testing.T) {
	rapid.Check(t, func(t *rapid.T) { run(t, genArgs(t)) })
}

func TestReplay(t *testing.T) {
	h.RunReplay(t, func(a Args) error {
		_, err := All(a)
		return err
	})
}

// ---- native fuzz targets (thorough tier): go test -fuzz

func seed(f *testing.F, add func(p string)) {
	for i, e := range corpus.Patterns {
		if i%7 == 0 && len(e.P) <= 48 {
			add(e.P)
		}
	}
	for _, s := range hostile {
		add(s)
	}
}

func small(p string, in []byte) bool { return len(p) <= 64 && len(in) <= 256 }

func fail(t *testing.T, a Args, err error) {
	if err != nil {
		h.Violation(t, a, "pattern %q opts=%#x cbits=%#x input=%q rep=%q startAt=%d count=%d: %s", a.Pattern, a.Opts, a.CBits, string(a.Input), a.Rep, a.StartAt, a.Count, err.Error())
	}
}

func FuzzCompile(f *testing.F) {
	seed(f, func(p string) { f.Add(p, uint16(0), uint8(0)) })
	f.Fuzz(func(t *testing.T, p string, opts uint16, cbits uint8) {
		if len(p) > 64 {
			return
		}
		a := Args{Pattern: p, Opts: opts & 511, CBits: cbits}
		_, err := Compile(a)
		fail(t, a, err)
	})
}

func FuzzMatchAPIs(f *testing.F) {
	seed(f, func(p string) { f.Add(p, []byte("ab\xffa b\n"), uint16(0), uint8(0), int16(-1)) })
	f.Fuzz(func(t *testing.T, p string, in []byte, opts uint16, cbits uint8, startAt int16) {
		if !small(p, in) {
			return
		}
		a := Args{Pattern: p, Input: in, Opts: opts & 511, CBits: cbits, StartAt: int(startAt), Count: int(startAt)}
		re, err := Compile(a)
		if err == nil && re != nil {
			err = MatchAPIs(re, a)
		}
		fail(t, a, err)
	})
}

func FuzzReplaceSplit(f *testing.F) {
	seed(f, func(p string) { f.Add(p, []byte("ab\xffa b\n"), "x$1${n}$+", uint16(0), int16(-1), int16(-1)) })
	f.Fuzz(func(t *testing.T, p string, in []byte, rep string, opts uint16, startAt, count int16) {
		if !small(p, in) || len(rep) > 32 {
			return
		}
		a := Args{Pattern: p, Input: in, Rep: rep, Opts: opts & 511, StartAt: int(startAt), Count: int(count)}
		re, err := Compile(a)
		if err == nil && re != nil {
			err = ReplaceSplit(re, a)
		}
		fail(t, a, err)
	})
}

func FuzzCompat(f *testing.F) {
	seed(f, func(p string) { f.Add(p, []byte("ab\xffa b\n"), uint16(0x80), int16(-1)) })
	f.Fuzz(func(t *testing.T, p string, in []byte, opts uint16, n int16) {
		if !small(p, in) {
			return
		}
		a := Args{Pattern: p, Input: in, Opts: opts & 511, Count: int(n)}
		re, err := Compile(a)
		if err == nil && re != nil {
			err = Compat(re, a)
		}
		fail(t, a, err)
	})
}

func FuzzEscape(f *testing.F) {
	seed(f, func(p string) { f.Add(p) })
	f.Fuzz(func(t *testing.T, s string) {
		if len(s) > 64 {
			return
		}
		if err := EscapeAPIs(s); err != nil {
			h.Violation(t, Args{Pattern: s}, "%s", err.Error())
		}
	})
}
