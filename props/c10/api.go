// Package c10 holds the fuzz / property targets of C10: every exported entry point either
// returns normally or returns a permitted error; nothing panics, nothing hangs.
package c10

import (
	"errors"
	"fmt"
	"strings"
	"time"

	regexp2 "github.com/dlclark/regexp2/v2"
	"github.com/dlclark/regexp2/v2/compat"
	"github.com/dlclark/regexp2/v2/syntax"

	"verif/internal/canon"
)

var optBits = []regexp2.RegexOptions{regexp2.IgnoreCase, regexp2.Multiline, regexp2.ExplicitCapture, regexp2.Singleline,
	regexp2.IgnorePatternWhitespace, regexp2.RightToLeft, regexp2.ECMAScript, regexp2.RE2, regexp2.Unicode}

// Args is one decoded fuzz input.
type Args struct {
	Pattern string `json:"pattern"`
	Input   []byte `json:"input"`
	Rep     string `json:"rep"`
	Opts    uint16 `json:"opts"`  // 9 option bits
	CBits   uint8  `json:"cbits"` // compile options: 1 codegen, 2 nobitmap, 4 captureorder, 8/16/32 stack limit selector
	StartAt int    `json:"start_at"`
	Count   int    `json:"count"`
}

func (a Args) options() []regexp2.CompileOption {
	var o regexp2.RegexOptions
	for i, b := range optBits {
		if a.Opts&(1<<uint(i)) != 0 {
			o |= b
		}
	}
	out := []regexp2.CompileOption{o}
	if a.CBits&1 != 0 {
		out = append(out, regexp2.OptionIsCodeGen())
	}
	if a.CBits&2 != 0 {
		out = append(out, regexp2.OptionDisableCharClassASCIIBitmap())
	}
	if a.CBits&4 != 0 {
		out = append(out, regexp2.OptionMaintainCaptureOrder())
	}
	switch (a.CBits >> 3) & 7 {
	case 1:
		out = append(out, regexp2.OptionMaxBacktrackingStackSize(0))
	case 2:
		out = append(out, regexp2.OptionMaxBacktrackingStackSize(1))
	case 3:
		out = append(out, regexp2.OptionMaxBacktrackingStackSize(37))
	case 4:
		out = append(out, regexp2.OptionMaxBacktrackingStackSize(-1))
	}
	return out
}

const matchTimeout = 100 * time.Millisecond

// Violation is a failed C10 obligation.
type Violation struct{ Msg string }

func (v *Violation) Error() string { return v.Msg }

func guard(what string, f func() error) (err error) {
	defer func() {
		if r := recover(); r != nil {
			err = &Violation{fmt.Sprintf("%s panicked: %v", what, r)}
		}
	}()
	return f()
}

func isParseError(err error) bool {
	var pe *syntax.Error
	return errors.As(err, &pe)
}

// permittedMatchError: timeout, stack limit, or a documented argument error.
func permittedMatchError(err error) bool {
	if err == nil {
		return true
	}
	switch canon.ErrClass(err) {
	case "timeout", "stacklimit", "startAt", "count":
		return true
	}
	return false
}

func chk(what string, err error) error {
	if !permittedMatchError(err) {
		return &Violation{fmt.Sprintf("%s returned a non-permitted error: %v", what, err)}
	}
	return nil
}

// Compile checks the Compile / MustCompile contract and returns the Regexp (nil if rejected).
func Compile(a Args) (*regexp2.Regexp, error) {
	var re *regexp2.Regexp
	var cerr error
	if err := guard("Compile", func() error {
		re, cerr = regexp2.Compile(a.Pattern, a.options()...)
		return nil
	}); err != nil {
		return nil, err
	}
	if cerr != nil {
		if !isParseError(cerr) {
			return nil, &Violation{fmt.Sprintf("Compile returned an error that is not a parse error: %T %v", cerr, cerr)}
		}
		if re != nil {
			return nil, &Violation{"Compile returned both a Regexp and an error"}
		}
	} else if re == nil {
		return nil, &Violation{"Compile returned neither a Regexp nor an error"}
	}
	// MustCompile panics exactly when Compile fails, with that error's text
	var must *regexp2.Regexp
	var pan any
	func() {
		defer func() { pan = recover() }()
		must = regexp2.MustCompile(a.Pattern, a.options()...)
	}()
	if cerr == nil && (pan != nil || must == nil) {
		return nil, &Violation{fmt.Sprintf("MustCompile panicked (%v) although Compile succeeded", pan)}
	}
	if cerr != nil {
		if pan == nil {
			return nil, &Violation{"MustCompile did not panic although Compile failed"}
		}
		if s, ok := pan.(string); !ok || !strings.Contains(s, cerr.Error()) {
			return nil, &Violation{fmt.Sprintf("MustCompile panicked with %v, not with the Compile error %v", pan, cerr)}
		}
		return nil, nil
	}
	re.MatchTimeout = matchTimeout
	return re, nil
}

func iterate(re *regexp2.Regexp, m *regexp2.Match, err error, limit int) error {
	for steps := 0; m != nil && err == nil; steps++ {
		if steps > limit {
			return &Violation{fmt.Sprintf("FindNextMatch did not stop after %d steps", steps)}
		}
		_ = m.String()
		for _, g := range m.Groups() {
			_, _ = g.ByteRange()
			_ = g.Runes()
			for i := range g.Captures {
				_ = g.Captures[i].String()
				_, _ = g.Captures[i].ByteRange()
			}
		}
		_ = m.GroupByNumber(1)
		_ = m.GroupByName("n0")
		_ = m.GroupCount()
		m, err = re.FindNextMatch(m)
	}
	return chk("FindNextMatch", err)
}

// MatchAPIs exercises the match calls.
func MatchAPIs(re *regexp2.Regexp, a Args) error {
	s := string(a.Input)
	r := []rune(s)
	if err := guard("MatchString", func() error { _, e := re.MatchString(s); return chk("MatchString", e) }); err != nil {
		return err
	}
	if err := guard("MatchRunes", func() error { _, e := re.MatchRunes(r); return chk("MatchRunes", e) }); err != nil {
		return err
	}
	if err := guard("FindStringMatch/iterate", func() error {
		m, e := re.FindStringMatch(s)
		return iterate(re, m, e, len(r)+2)
	}); err != nil {
		return err
	}
	if err := guard("FindRunesMatch/iterate", func() error {
		m, e := re.FindRunesMatch(r)
		return iterate(re, m, e, len(r)+2)
	}); err != nil {
		return err
	}
	if err := guard("FindStringMatchStartingAt", func() error {
		m, e := re.FindStringMatchStartingAt(s, a.StartAt)
		return iterate(re, m, e, len(r)+2)
	}); err != nil {
		return err
	}
	if err := guard("FindRunesMatchStartingAt", func() error {
		m, e := re.FindRunesMatchStartingAt(r, a.StartAt)
		return iterate(re, m, e, len(r)+2)
	}); err != nil {
		return err
	}
	if err := guard("FindAllStringIndex", func() error { _, e := re.FindAllStringIndex(s, a.Count); return chk("FindAllStringIndex", e) }); err != nil {
		return err
	}
	if err := guard("FindAllRunesIndex", func() error { _, e := re.FindAllRunesIndex(r, a.Count); return chk("FindAllRunesIndex", e) }); err != nil {
		return err
	}
	return guard("group accessors", func() error {
		names := re.GetGroupNames()
		nums := re.GetGroupNumbers()
		for _, n := range names {
			_ = re.GroupNumberFromName(n)
		}
		for _, n := range nums {
			_ = re.GroupNameFromNumber(n)
		}
		_ = re.GroupNameFromNumber(-1)
		_ = re.GroupNameFromNumber(1 << 30)
		_ = re.GroupNumberFromName("")
		_ = re.GroupNumberFromName("99999999999999999999")
		_ = re.String()
		b, _ := re.MarshalText()
		var re2 regexp2.Regexp
		if err := re2.UnmarshalText(b); err != nil && !isParseError(err) {
			return &Violation{fmt.Sprintf("UnmarshalText: %v", err)}
		}
		return nil
	})
}

// ReplaceSplit exercises Replace, ReplaceFunc and Split.
func ReplaceSplit(re *regexp2.Regexp, a Args) error {
	s := string(a.Input)
	if err := guard("Replace", func() error {
		_, e := re.Replace(s, a.Rep, a.StartAt, a.Count)
		if e != nil && isParseError(e) {
			return nil // the replacement string itself was rejected: an argument error
		}
		return chk("Replace", e)
	}); err != nil {
		return err
	}
	if err := guard("Replace(-1,-1)", func() error {
		_, e := re.Replace(s, a.Rep, -1, -1)
		if e != nil && isParseError(e) {
			return nil
		}
		return chk("Replace", e)
	}); err != nil {
		return err
	}
	if err := guard("ReplaceFunc", func() error {
		_, e := re.ReplaceFunc(s, func(m regexp2.Match) string { return m.String() + a.Rep }, a.StartAt, a.Count)
		return chk("ReplaceFunc", e)
	}); err != nil {
		return err
	}
	if err := guard("Split", func() error { _, e := re.Split(s, a.Count); return chk("Split", e) }); err != nil {
		return err
	}
	return guard("Split(-1)", func() error { _, e := re.Split(s, -1); return chk("Split", e) })
}

type byteRuneReader struct {
	s string
	i int
}

func (r *byteRuneReader) ReadRune() (rune, int, error) {
	if r.i >= len(r.s) {
		return 0, 0, errEOF
	}
	c, w := decodeRune(r.s[r.i:])
	r.i += w
	return c, w, nil
}

// Compat exercises every adapter method; a panic is permitted only with a permitted match error.
func Compat(re *regexp2.Regexp, a Args) error {
	cre := compat.Wrap(re)
	s := string(a.Input)
	b := a.Input
	n := a.Count
	call := func(what string, f func()) error {
		var v error
		func() {
			defer func() {
				if r := recover(); r != nil {
					if e, ok := r.(error); ok && e != nil && permittedMatchError(e) {
						return
					}
					v = &Violation{fmt.Sprintf("compat.%s panicked with %v", what, r)}
				}
			}()
			f()
		}()
		return v
	}
	calls := []struct {
		n string
		f func()
	}{
		{"Match", func() { cre.Match(b) }}, {"MatchString", func() { cre.MatchString(s) }}, {"MatchReader", func() { cre.MatchReader(&byteRuneReader{s: s}) }},
		{"Find", func() { cre.Find(b) }}, {"FindIndex", func() { cre.FindIndex(b) }}, {"FindString", func() { cre.FindString(s) }},
		{"FindStringIndex", func() { cre.FindStringIndex(s) }}, {"FindReaderIndex", func() { cre.FindReaderIndex(&byteRuneReader{s: s}) }},
		{"FindSubmatch", func() { cre.FindSubmatch(b) }}, {"FindSubmatchIndex", func() { cre.FindSubmatchIndex(b) }},
		{"FindStringSubmatch", func() { cre.FindStringSubmatch(s) }}, {"FindStringSubmatchIndex", func() { cre.FindStringSubmatchIndex(s) }},
		{"FindReaderSubmatchIndex", func() { cre.FindReaderSubmatchIndex(&byteRuneReader{s: s}) }},
		{"FindAll", func() { cre.FindAll(b, n) }}, {"FindAllIndex", func() { cre.FindAllIndex(b, n) }}, {"FindAllString", func() { cre.FindAllString(s, n) }},
		{"FindAllStringIndex", func() { cre.FindAllStringIndex(s, n) }}, {"FindAllSubmatch", func() { cre.FindAllSubmatch(b, n) }},
		{"FindAllSubmatchIndex", func() { cre.FindAllSubmatchIndex(b, n) }}, {"FindAllStringSubmatch", func() { cre.FindAllStringSubmatch(s, n) }},
		{"FindAllStringSubmatchIndex", func() { cre.FindAllStringSubmatchIndex(s, n) }}, {"String", func() { _ = cre.String(); _ = cre.Unwrap() }},
	}
	for _, c := range calls {
		if err := call(c.n, c.f); err != nil {
			return err
		}
	}
	return nil
}

// EscapeAPIs: Escape never fails; Unescape returns a string or a parse error.
func EscapeAPIs(s string) error {
	return guard("Escape/Unescape", func() error {
		e := regexp2.Escape(s)
		if _, err := regexp2.Unescape(e); err != nil && !isParseError(err) {
			return &Violation{fmt.Sprintf("Unescape(Escape(%q)) error %v", s, err)}
		}
		if _, err := regexp2.Unescape(s); err != nil && !isParseError(err) {
			return &Violation{fmt.Sprintf("Unescape(%q) returned a non-parse error %v", s, err)}
		}
		return nil
	})
}

// Result classifies what happened for labels.
type Result struct {
	Compiled bool
	ErrPos   bool
}

// All runs every target body under a watchdog. The returned error is a *Violation.
func All(a Args) (Result, error) {
	var res Result
	done := make(chan error, 1)
	go func() {
		done <- func() error {
			re, err := Compile(a)
			if err != nil {
				return err
			}
			if err := EscapeAPIs(a.Pattern); err != nil {
				return err
			}
			if re == nil {
				return nil
			}
			res.Compiled = true
			if err := MatchAPIs(re, a); err != nil {
				return err
			}
			if err := ReplaceSplit(re, a); err != nil {
				return err
			}
			return Compat(re, a)
		}()
	}()
	select {
	case err := <-done:
		return res, err
	case <-time.After(30 * time.Second):
		return res, &Violation{"call did not return within 30 s (hang)"}
	}
}
