package c10

import (
	"io"
	"unicode/utf8"
)

var errEOF = io.EOF

func decodeRune(s string) (rune, int) { return utf8.DecodeRuneInString(s) }
