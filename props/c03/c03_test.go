package c03

import (
	"fmt"
	"testing"
	"time"

	regexp2 "github.com/dlclark/regexp2/v2"
	"github.com/dlclark/regexp2/v2/syntax"
	"pgregory.net/rapid"

	"verif/internal/ast"
	"verif/internal/canon"
	"verif/internal/eng"
	"verif/internal/gen"
	"verif/internal/h"
)

type Case struct {
	Spec   eng.Spec  `json:"spec"`
	AST    *ast.Node `json:"ast,omitempty"`
	Inputs [][]byte  `json:"inputs"`
	At     int       `json:"at,omitempty"`
	OneOff bool      `json:"one_offset,omitempty"`
}

func TestMain(m *testing.M) {
	h.Setup("C03",
		"F-accel templates (one per candidate-search mode, random sub-fragments in the holes) and harvested corpus patterns x all option bits x code-gen analysis on/off x bitmap on/off x near-miss / pattern-directed / random inputs (0-40 runes, multi-byte) x every start offset; one evaluation = one (pattern,input,offset) where FindRunesMatchStartingAt, FindStringMatchStartingAt and the successor FindNextMatch are compared with the verif-only naive scan of the same compiled program; non-trivial = the program has a search mode other than NoSearch or a legacy finder (anchors/Boyer-Moore/first-char set) or a string prefix filter, and a literal rune of the pattern occurs in the input away from the naive match start (near miss) or there is no match although one occurs; distinct = hash of (pattern, options, input, offset)",
		map[string]float64{"accelerated": 0.5, "near-miss": 0.30, "rtl": 0.08, "bm-prefix": 0.03, "prefix-filter": 0.10,
			"findmode=LeadingString_LeftToRight/patterns": 0.02, "findmode=LeadingSet_LeftToRight/patterns": 0.02,
			"findmode=FixedDistanceString_LeftToRight/patterns": 0.01, "findmode=FixedDistanceChar_LeftToRight/patterns": 0.01,
			"findmode=FixedDistanceSets_LeftToRight/patterns": 0.01, "findmode=LiteralAfterLoop_LeftToRight/patterns": 0.003,
			"findmode=RequiredLandmarkChain_LeftToRight/patterns": 0.005, "findmode=LeadingStrings_LeftToRight/patterns": 0.002,
			"findmode=LeadingStrings_OrdinalIgnoreCase_LeftToRight/patterns": 0.001, "findmode=LeadingString_OrdinalIgnoreCase_LeftToRight/patterns": 0.005,
			"findmode=TrailingAnchor_FixedLength_LeftToRight_End/patterns": 0.003, "findmode=TrailingAnchor_FixedLength_LeftToRight_EndZ/patterns": 0.003,
			"findmode=LeadingAnchor_LeftToRight_Beginning/patterns": 0.005, "findmode=LeadingAnchor_LeftToRight_Start/patterns": 0.003,
			"findmode=LeadingString_RightToLeft/patterns": 0.003, "findmode=LeadingSet_RightToLeft/patterns": 0.003, "findmode=LeadingChar_RightToLeft/patterns": 0.002},
		"the naive scan hook (verif_hooks.go) attempts the same compiled program at every position; it shares the interpreter with the engine, so this check isolates acceleration only")
	h.Ceiling("compile-error", 0.25)
	h.Main(m)
}

func gen1(t *rapid.T) Case {
	cfg := gen.Cfg{Depth: 3, Full: true, Inline: "imsx", Magic: true}
	o, base := gen.FullOpts(t, true, true, true)
	c := Case{Spec: eng.Spec{Options: int32(o)}}
	c.Spec.CodeGen = rapid.IntRange(0, 2).Draw(t, "codegen") == 0
	c.Spec.NoBitmap = rapid.IntRange(0, 3).Draw(t, "nobitmap") == 0
	var root *ast.Node
	if rapid.IntRange(0, 7).Draw(t, "corpus") == 0 {
		spec, r, _ := gen.FullSpec(t, cfg, true, true, true)
		spec.CodeGen, spec.NoBitmap = c.Spec.CodeGen, c.Spec.NoBitmap
		c.Spec = spec
		root = r
	} else {
		root = gen.Accel(t, cfg)
		if o&regexp2.ECMAScript == 0 && rapid.Bool().Draw(t, "rtllong") && root.Has(func(x *ast.Node) bool { return x.K == ast.KLit && len(x.R) > 40 }) {
			// literals around the 50-rune prefix limit matter in both directions
			o |= regexp2.RightToLeft
			c.Spec.Options = int32(o)
			h.Label("rtl-long-literal")
			// right-to-left the "leading" literal is the one at the right end of the pattern
			if root.K == ast.KSeq && len(root.Kids) > 1 && root.Kids[0].K == ast.KLit && len(root.Kids[0].R) > 40 {
				root.Kids = append(root.Kids[1:], root.Kids[0])
			}
		}
		gen.Resolve(t, root, base, o&regexp2.ECMAScript != 0, cfg)
		po := ast.PrintOpts{ECMA: o&regexp2.ECMAScript != 0}
		if base.X {
			po.Blank = gen.Blanks(t)
		}
		c.Spec.Pattern = ast.Print(root, po)
	}
	c.AST = root
	var alpha []rune
	if root != nil {
		alpha = gen.Alphabet(root, o&regexp2.RE2 != 0, 12)
	} else {
		alpha = []rune(c.Spec.Pattern)
		if len(alpha) > 12 {
			alpha = alpha[:12]
		}
	}
	n := 8
	for i := 0; i < n; i++ {
		var in []rune
		switch {
		case root != nil && i%4 == 0:
			in = gen.NearMiss(t, root, alpha, 80)
		case root != nil && i%4 != 3:
			in = gen.Directed(t, root, o&regexp2.RE2 != 0, alpha, false, 80)
		default:
			in = gen.Random(t, alpha, 16)
		}
		rate := 40
		if root != nil && root.Has(func(x *ast.Node) bool {
			for _, r := range x.R {
				if r == 0xFFFD {
					return true
				}
			}
			return false
		}) {
			rate = 3 // the pattern searches for U+FFFD: invalid bytes decode to it
		}
		if i%2 == 1 {
			rate = 0 // every second input stays valid UTF-8: long literals survive only uncorrupted
		}
		c.Inputs = append(c.Inputs, []byte(gen.ByteString(t, in, rate)))
	}
	return c
}

type failure struct {
	red Case
	msg string
}

func (f *failure) Error() string { return f.msg }

func check(c Case) error {
	re, err := c.Spec.Compile()
	if err != nil {
		h.Discard("compile-error")
		return nil
	}
	code := regexp2.VerifCode(re)
	mode := "none"
	accelerated := regexp2.VerifHasStringPrefixFilter(re)
	if code.FindOptimizations != nil {
		mode = code.FindOptimizations.FindMode.String()
		if code.FindOptimizations.FindMode != syntax.NoSearch || code.FindOptimizations.MinRequiredLength > 0 {
			accelerated = true
		}
	}
	if code.BmPrefix != nil || code.FcPrefix != nil || code.Anchors != 0 {
		accelerated = true
	}
	h.Label("patterns")
	h.Label("findmode=" + mode)
	rtl := c.Spec.RTL()
	var lits []rune
	if c.AST != nil {
		lits = ast.LiteralRunes(c.AST)
	} else {
		lits = []rune(c.Spec.Pattern)
	}
	over := h.Budget(2 * time.Second)
	for _, in := range c.Inputs {
		s := string(in)
		r := canon.Decode(s)
		offs := canon.ByteOffsets(s)
		lo, hi := 0, len(r)
		if c.OneOff {
			lo, hi = c.At, c.At
		}
		for at := lo; at <= hi; at++ {
			if over() {
				h.Discard("slow-case")
				return nil
			}
			h.Eval()
			fail := func(msg string) error {
				red := c
				red.Inputs = [][]byte{in}
				red.At, red.OneOff = at, true
				return &failure{red, fmt.Sprintf("pattern %q opts=%s codegen=%v nobitmap=%v input=%q startAt=%d mode=%s: %s",
					c.Spec.Pattern, eng.OptString(c.Spec.Options), c.Spec.CodeGen, c.Spec.NoBitmap, s, at, mode, msg)}
			}
			nm, nerr := regexp2.VerifNaiveFind(re, r, at, at)
			if nerr != nil {
				h.Discard("naive-" + canon.ErrClass(nerr))
				return nil // a catastrophic pattern: every further position would cost a full timeout
			}
			want := canon.FromMatch(re, nm)
			pm, perr := re.FindRunesMatchStartingAt(r, at)
			if perr != nil {
				if canon.ErrClass(perr) == "timeout" {
					h.Discard("timeout")
					return nil
				}
				return fail("FindRunesMatchStartingAt error: " + perr.Error())
			}
			if err := canon.Validate(re, pm, r, nil); err != nil {
				return fail("malformed match: " + err.Error())
			}
			got := canon.FromMatch(re, pm)
			if !canon.Equal(got, want) {
				return fail(fmt.Sprintf("FindRunesMatchStartingAt %s, naive scan %s", got, want))
			}
			sm, serr := re.FindStringMatchStartingAt(s, offs[at])
			if serr != nil {
				if canon.ErrClass(serr) == "timeout" {
					h.Discard("timeout")
					return nil
				}
				return fail("FindStringMatchStartingAt error: " + serr.Error())
			}
			if err := canon.Validate(re, sm, r, &s); err != nil {
				return fail("malformed string match: " + err.Error())
			}
			if gs := canon.FromMatch(re, sm); !canon.Equal(gs, want) {
				return fail(fmt.Sprintf("FindStringMatchStartingAt %s, naive scan %s", gs, want))
			}
			// successor search
			if pm != nil {
				end := pm.RuneIndex + pm.RuneLength
				if rtl {
					end = pm.RuneIndex
				}
				next, err := re.FindNextMatch(pm)
				if err == nil {
					var wantNext canon.Result
					start := end
					dead := false
					if pm.RuneLength == 0 {
						if rtl {
							start--
						} else {
							start++
						}
						if start < 0 || start > len(r) {
							dead = true
						}
					}
					if !dead {
						nn, err2 := regexp2.VerifNaiveFind(re, r, start, end)
						if err2 == nil {
							wantNext = canon.FromMatch(re, nn)
						} else {
							dead = true
							wantNext = canon.FromMatch(re, next)
						}
					}
					if gn := canon.FromMatch(re, next); !canon.Equal(gn, wantNext) {
						return fail(fmt.Sprintf("FindNextMatch after %s gives %s, naive scan from %d (\\G=%d) gives %s", got, gn, start, end, wantNext))
					}
					h.Label("successor")
				}
			}
			// classification
			h.LabelIf(accelerated, "accelerated")
			h.LabelIf(rtl, "rtl")
			h.LabelIf(code.BmPrefix != nil, "bm-prefix")
			h.LabelIf(regexp2.VerifHasStringPrefixFilter(re), "prefix-filter")
			h.LabelIf(want.Matched, "match")
			near := false
			for i, x := range r {
				for _, l := range lits {
					if x == l && (!want.Matched || i != want.I) {
						near = true
					}
				}
			}
			h.LabelIf(near, "near-miss")
			if accelerated && near {
				key := fmt.Sprintf("%s|%d|%v|%v|%q|%d", c.Spec.Pattern, c.Spec.Options, c.Spec.CodeGen, c.Spec.NoBitmap, s, at)
				h.NonTrivial(key, func() any {
					return map[string]any{"pattern": c.Spec.Pattern, "options": eng.OptString(c.Spec.Options), "codegen": c.Spec.CodeGen, "input": s, "start_at": at, "mode": mode, "result": want.String()}
				})
			}
		}
	}
	return nil
}

func prop(t *rapid.T) {
	c := gen1(t)
	if err := h.Safely(func() error { return check(c) }); err != nil {
		red := c
		if f, ok := err.(*failure); ok {
			red = f.red
		}
		h.Violation(t, red, "%s", err.Error())
	}
}

func TestProp(t *testing.T) { rapid.Check(t, prop) }

// FuzzProp lets Go's coverage-guided mutator drive the structured generators (thorough tier).
func FuzzProp(f *testing.F) { f.Fuzz(rapid.MakeFuzz(prop)) }

func TestReplay(t *testing.T) { h.RunReplay(t, check) }
