package c04

import (
	"fmt"
	"testing"

	regexp2 "github.com/dlclark/regexp2/v2"
	"pgregory.net/rapid"

	"verif/internal/ast"
	"verif/internal/eng"
	"verif/internal/gen"
	"verif/internal/h"
)

type Case struct {
	Spec   eng.Spec  `json:"spec"`
	AST    *ast.Node `json:"ast,omitempty"`
	Alpha  string    `json:"alpha,omitempty"`
	MaxLen int       `json:"maxlen,omitempty"`
	Inputs []string  `json:"inputs,omitempty"`
	At     int       `json:"at,omitempty"`
	G      int       `json:"g,omitempty"`
	OneOff bool      `json:"one_offset,omitempty"`
}

func TestMain(m *testing.M) {
	h.Setup("C04",
		"F-accel templates (one per candidate-search mode), F-full ASTs and corpus patterns x options x code-gen analysis on/off x both directions; per pattern every string up to length 4-5 over a 3-4 symbol pattern-derived alphabet (exhaustive) plus 12 sampled longer strings, every attempt position, \\G origin at the position and at 0; one evaluation = one (pattern,input,position) at which the single-position attempt hook succeeds; there every published fact (MinRequiredLength, ComputeMinLength, MaxPossibleLength, LeadingAnchor, TrailingAnchor, Anchors bits, LeadingPrefix, LeadingPrefixes, FixedDistanceLiteral, FixedDistanceSets incl. their Chars/Range/Negated summaries, LiteralAfterLoop, LandmarkChain, FcPrefix, BmPrefix) is evaluated by a declarative predicate written from the field's documented meaning; non-trivial = at least one fact beyond the minimum length is published and the position matches; distinct = hash of (pattern, options, input, position)",
		map[string]float64{"kind:leading-prefix/patterns": 0.02, "kind:leading-prefixes/patterns": 0.002, "kind:fixed-distance-literal/patterns": 0.02, "kind:fixed-distance-sets/patterns": 0.05,
			"kind:literal-after-loop/patterns": 0.003, "kind:landmark-chain/patterns": 0.005, "kind:fc-prefix/patterns": 0.1, "kind:bm-prefix/patterns": 0.05, "kind:anchors/patterns": 0.03,
			"kind:leading-anchor/patterns": 0.03, "kind:trailing-anchor/patterns": 0.02, "kind:max-length/patterns": 0.01, "patterns-with-match/patterns": 0.5, "rtl/patterns": 0.08},
		"matching positions come from the verif-only single-attempt hook, which runs the same compiled program without any candidate search, so a fact that is too strong cannot hide the positions that refute it",
		"the landmark-chain predicate is the weakest reading of the struct comments (ordered occurrence, earliest possible ends)")
	h.Ceiling("compile-error", 0.25)
	h.Main(m)
}

func gen1(t *rapid.T) Case {
	cfg := gen.Cfg{Depth: 3, Full: true, Inline: "ims", Magic: true}
	var c Case
	if rapid.IntRange(0, 3).Draw(t, "fullspec") == 0 {
		spec, root, _ := gen.FullSpec(t, cfg, true, true, true)
		c.Spec, c.AST = spec, root
	} else {
		o, base := gen.FullOpts(t, true, true, true)
		o &^= regexp2.IgnorePatternWhitespace
		base.X = false
		c.Spec = eng.Spec{Options: int32(o), CodeGen: rapid.IntRange(0, 2).Draw(t, "codegen") == 0}
		root := gen.Accel(t, cfg)
		gen.Resolve(t, root, base, o&regexp2.ECMAScript != 0, cfg)
		c.Spec.Pattern = ast.Print(root, ast.PrintOpts{ECMA: o&regexp2.ECMAScript != 0})
		c.AST = root
	}
	alpha := []rune("ab1 \n")
	if c.AST != nil {
		alpha = gen.Alphabet(c.AST, regexp2.RegexOptions(c.Spec.Options)&regexp2.RE2 != 0, 10)
	} else {
		alpha = nil
		for _, r := range c.Spec.Pattern {
			if len(alpha) < 10 {
				alpha = append(alpha, r)
			}
		}
		alpha = append(alpha, 'a', ' ')
	}
	k := rapid.IntRange(3, 4).Draw(t, "alphasize")
	if k > len(alpha) {
		k = len(alpha)
	}
	off := rapid.IntRange(0, len(alpha)-1).Draw(t, "alphaoff")
	var sub []rune
	for i := 0; i < k; i++ {
		sub = append(sub, alpha[(off+i)%len(alpha)])
	}
	c.Alpha = string(sub)
	c.MaxLen = map[int]int{1: 5, 2: 5, 3: 5, 4: 4}[k]
	for i := 0; i < 12; i++ {
		var in []rune
		switch {
		case c.AST != nil && i%3 == 0:
			in = gen.NearMiss(t, c.AST, alpha, 80)
		case c.AST != nil:
			in = gen.Directed(t, c.AST, false, alpha, false, 80)
		default:
			in = gen.Random(t, alpha, 16)
		}
		c.Inputs = append(c.Inputs, string(in))
	}
	return c
}

var errAbandon = fmt.Errorf("abandon")

type failure struct {
	red Case
	msg string
}

func (f *failure) Error() string { return f.msg }

func check(c Case) error {
	re, err := c.Spec.Compile()
	if err != nil {
		h.Discard("compile-error")
		return nil
	}
	opts := regexp2.RegexOptions(c.Spec.Options)
	f := NewFacts(re, c.Spec.Pattern, opts, c.Spec.CodeGen)
	h.Label("patterns")
	for _, k := range f.Kinds {
		h.Label("kind:" + k)
	}
	h.Label("findmode=" + f.Opt.FindMode.String())
	h.LabelIf(f.RTL, "rtl")
	anyMatch := false
	one := func(t []rune) error {
		lo, hi := 0, len(t)
		if c.OneOff {
			lo, hi = c.At, c.At
		}
		for p := lo; p <= hi; p++ {
			gs := []int{p, 0}
			if c.OneOff {
				gs = []int{c.G}
			}
			for gi, g := range gs {
				if gi == 1 && p == 0 {
					continue
				}
				m, err := regexp2.VerifMatchAt(re, t, p, g)
				if err != nil {
					h.Discard("attempt-" + err.Error()[:7])
					return errAbandon
				}
				if m == nil {
					continue
				}
				anyMatch = true
				h.Eval()
				sp := span{m.RuneIndex, m.RuneIndex + m.RuneLength}
				if msg := f.Check(t, p, g, sp); msg != "" {
					red := c
					red.Inputs, red.Alpha, red.MaxLen = []string{string(t)}, "", 0
					red.At, red.G, red.OneOff = p, g, true
					return &failure{red, fmt.Sprintf("pattern %q opts=%s codegen=%v input=%q: the program matches (%d,%d) at position %d (\\G=%d), mode %s, but: %s",
						c.Spec.Pattern, eng.OptString(c.Spec.Options), c.Spec.CodeGen, string(t), sp.b, sp.e-sp.b, p, g, f.Opt.FindMode, msg)}
				}
				if len(f.Kinds) > 0 {
					h.NonTrivial(fmt.Sprintf("%s|%d|%v|%q|%d|%d", c.Spec.Pattern, c.Spec.Options, c.Spec.CodeGen, string(t), p, g), func() any {
						return map[string]any{"pattern": c.Spec.Pattern, "options": eng.OptString(c.Spec.Options), "codegen": c.Spec.CodeGen, "input": string(t), "position": p, "mode": f.Opt.FindMode.String(), "facts": f.Kinds}
					})
				}
			}
		}
		return nil
	}
	if c.Alpha != "" {
		var ferr error
		gen.Exhaustive([]rune(c.Alpha), c.MaxLen, func(in []rune) bool {
			ferr = one(in)
			return ferr == nil
		})
		if ferr == errAbandon {
			return nil
		}
		if ferr != nil {
			return ferr
		}
	}
	for _, s := range c.Inputs {
		if err := one([]rune(s)); err != nil {
			if err == errAbandon {
				return nil
			}
			return err
		}
	}
	h.LabelIf(anyMatch, "patterns-with-match")
	return nil
}

func prop(t *rapid.T) {
	c := gen1(t)
	if err := h.Safely(func() error { return check(c) }); err != nil {
		red := c
		if f, ok := err.(*failure); ok {
			red = f.red
		}
		h.Violation(t, red, "%s", err.Error())
	}
}

func TestProp(t *testing.T) { rapid.Check(t, prop) }

// FuzzProp lets Go's coverage-guided mutator drive the structured generators (thorough tier).
func FuzzProp(f *testing.F) { f.Fuzz(rapid.MakeFuzz(prop)) }

func TestReplay(t *testing.T) { h.RunReplay(t, check) }
