package c04

import (
	"fmt"
	"strings"
	"unicode"

	regexp2 "github.com/dlclark/regexp2/v2"
	"github.com/dlclark/regexp2/v2/syntax"

	"verif/internal/cls"
)

// Facts bundles what the compiler published for one pattern.
type Facts struct {
	Code    *syntax.Code
	Opt     *syntax.FindOptimizations
	RTL     bool
	RE2ECMA bool // RE2 or ECMAScript: \Z behaves like \z
	ECMA    bool
	TreeMin int // Root.ComputeMinLength() of a separate parse (-1 if unavailable)
	Kinds   []string
	bmCI    bool
}

func asciiFoldEq(a, b rune) bool {
	if a == b {
		return true
	}
	if a < 0x80 && b < 0x80 {
		la, lb := a|0x20, b|0x20
		return la == lb && la >= 'a' && la <= 'z'
	}
	return false
}

func hasPrefixAt(t []rune, p int, lit []rune, fold bool) bool {
	if p < 0 || p+len(lit) > len(t) {
		return false
	}
	for i, c := range lit {
		if t[p+i] != c && !(fold && asciiFoldEq(t[p+i], c)) {
			return false
		}
	}
	return true
}

func isWordB(r rune, ecma bool) bool {
	if ecma {
		return unicode.In(r, unicode.L, unicode.Mn, unicode.Nd, unicode.Pc)
	}
	return cls.IsWord(r)
}

// anchorHolds evaluates an anchor node type at position p (g = \G origin).
func (f *Facts) anchorHolds(nt syntax.NodeType, t []rune, p, g int) (bool, bool) {
	n := len(t)
	switch nt {
	case syntax.NtBeginning:
		return p == 0, true
	case syntax.NtStart:
		return p == g, true
	case syntax.NtEnd:
		return p == n, true
	case syntax.NtEndZ:
		if f.RE2ECMA {
			return p == n, true
		}
		return p == n || (p == n-1 && t[p] == '\n'), true
	case syntax.NtBol:
		return p == 0 || t[p-1] == '\n', true
	case syntax.NtEol:
		return p == n || t[p] == '\n', true
	case syntax.NtBoundary, syntax.NtECMABoundary:
		ec := nt == syntax.NtECMABoundary
		a := p > 0 && isWordB(t[p-1], ec)
		b := p < n && isWordB(t[p], ec)
		return a != b, true
	}
	return true, false
}

type span struct{ b, e int }

// Check evaluates every published fact at a position p where a single-position attempt matched
// with span m. It returns a description of the first fact that does not hold.
func (f *Facts) Check(t []rune, p, g int, m span) string {
	n := len(t)
	o := f.Opt
	length := m.e - m.b
	// ---- lengths
	avail := n - p
	if f.RTL {
		avail = p
	}
	if o.MinRequiredLength > avail {
		return fmt.Sprintf("MinRequiredLength=%d but only %d runes are available from the matching position", o.MinRequiredLength, avail)
	}
	if f.TreeMin >= 0 && length < f.TreeMin {
		return fmt.Sprintf("Root.ComputeMinLength()=%d but the match has length %d", f.TreeMin, length)
	}
	if o.MaxPossibleLength >= 0 && length > o.MaxPossibleLength {
		return fmt.Sprintf("MaxPossibleLength=%d but the match has length %d", o.MaxPossibleLength, length)
	}
	// ---- anchors
	if ok, known := f.anchorHolds(o.LeadingAnchor, t, p, g); known && !ok {
		return fmt.Sprintf("LeadingAnchor=%v does not hold at the matching position %d", o.LeadingAnchor, p)
	}
	if !f.RTL {
		if ok, known := f.anchorHolds(o.TrailingAnchor, t, m.e, g); known && !ok && o.TrailingAnchor != syntax.NtStart {
			return fmt.Sprintf("TrailingAnchor=%v does not hold at the end %d of the match", o.TrailingAnchor, m.e)
		}
	}
	a := f.Code.Anchors
	legacy := []struct {
		bit syntax.AnchorLoc
		nt  syntax.NodeType
	}{{syntax.AnchorBeginning, syntax.NtBeginning}, {syntax.AnchorBol, syntax.NtBol}, {syntax.AnchorStart, syntax.NtStart}, {syntax.AnchorEol, syntax.NtEol},
		{syntax.AnchorEndZ, syntax.NtEndZ}, {syntax.AnchorEnd, syntax.NtEnd}, {syntax.AnchorBoundary, syntax.NtBoundary}, {syntax.AnchorECMABoundary, syntax.NtECMABoundary}}
	for _, l := range legacy {
		if a&l.bit != 0 {
			if ok, _ := f.anchorHolds(l.nt, t, p, g); !ok {
				return fmt.Sprintf("Anchors has bit %#x (%v) but it does not hold at the matching position %d", int(l.bit), l.nt, p)
			}
		}
	}
	// ---- mode-specific facts
	switch o.FindMode {
	case syntax.LeadingString_LeftToRight:
		if !hasPrefixAt(t, p, []rune(o.LeadingPrefix), false) {
			return fmt.Sprintf("LeadingPrefix=%q is not a prefix of the input at %d", o.LeadingPrefix, p)
		}
	case syntax.LeadingString_OrdinalIgnoreCase_LeftToRight:
		if !hasPrefixAt(t, p, []rune(o.LeadingPrefix), true) {
			return fmt.Sprintf("LeadingPrefix=%q (ordinal ignore-case) is not a prefix of the input at %d", o.LeadingPrefix, p)
		}
	case syntax.LeadingString_RightToLeft:
		lp := []rune(o.LeadingPrefix)
		if !hasPrefixAt(t, p-len(lp), lp, false) {
			return fmt.Sprintf("LeadingPrefix=%q (right-to-left) does not end at %d", o.LeadingPrefix, p)
		}
	case syntax.LeadingStrings_LeftToRight, syntax.LeadingStrings_OrdinalIgnoreCase_LeftToRight:
		fold := o.FindMode == syntax.LeadingStrings_OrdinalIgnoreCase_LeftToRight
		ok := false
		for _, pre := range o.LeadingPrefixes {
			if hasPrefixAt(t, p, []rune(pre), fold) {
				ok = true
			}
		}
		if !ok {
			return fmt.Sprintf("none of LeadingPrefixes=%q is a prefix of the input at %d", o.LeadingPrefixes, p)
		}
		// the rune forms of the same fact: LeadingPrefixesRunes mirrors LeadingPrefixes, and when a table of
		// first runes is published the rune at a matching position is in it
		if len(o.LeadingPrefixesRunes) > 0 {
			okr := false
			for _, pre := range o.LeadingPrefixesRunes {
				if hasPrefixAt(t, p, pre, fold) {
					okr = true
				}
			}
			if !okr {
				return fmt.Sprintf("none of LeadingPrefixesRunes=%q is a prefix of the input at %d", o.LeadingPrefixesRunes, p)
			}
		}
		if len(o.LeadingPrefixFirstRunes) > 0 && !fold && p < n {
			in := false
			for _, r := range o.LeadingPrefixFirstRunes {
				if r == t[p] {
					in = true
				}
			}
			if !in {
				return fmt.Sprintf("LeadingPrefixFirstRunes=%q does not contain %q, the rune at the matching position %d (LeadingPrefixes=%q)", string(o.LeadingPrefixFirstRunes), t[p], p, o.LeadingPrefixes)
			}
		}
	case syntax.LeadingChar_RightToLeft:
		if p < 1 || t[p-1] != o.FixedDistanceLiteral.C {
			return fmt.Sprintf("FixedDistanceLiteral.C=%q (leading char, right-to-left) is not the rune before %d", o.FixedDistanceLiteral.C, p)
		}
	case syntax.FixedDistanceChar_LeftToRight:
		q := p + o.FixedDistanceLiteral.Distance
		if q >= n || t[q] != o.FixedDistanceLiteral.C {
			return fmt.Sprintf("FixedDistanceLiteral %q at distance %d does not occur at %d", o.FixedDistanceLiteral.C, o.FixedDistanceLiteral.Distance, q)
		}
	case syntax.FixedDistanceString_LeftToRight:
		q := p + o.FixedDistanceLiteral.Distance
		if !hasPrefixAt(t, q, []rune(o.FixedDistanceLiteral.S), false) {
			return fmt.Sprintf("FixedDistanceLiteral %q at distance %d does not occur at %d", o.FixedDistanceLiteral.S, o.FixedDistanceLiteral.Distance, q)
		}
	case syntax.LeadingSet_LeftToRight, syntax.FixedDistanceSets_LeftToRight, syntax.LeadingSet_RightToLeft:
		for i, s := range o.FixedDistanceSets {
			q := p + s.Distance
			if o.FindMode == syntax.LeadingSet_RightToLeft {
				q = p - 1
			}
			if q < 0 || q >= n {
				return fmt.Sprintf("FixedDistanceSets[%d] at distance %d points outside the input (position %d)", i, s.Distance, q)
			}
			if !s.Set.CharIn(t[q]) {
				return fmt.Sprintf("FixedDistanceSets[%d]=%v at distance %d does not contain %q at %d", i, s.Set, s.Distance, t[q], q)
			}
			// the published summaries must agree with the set on this rune
			if len(s.Chars) > 0 {
				in := false
				for _, c := range s.Chars {
					if c == t[q] {
						in = true
					}
				}
				if in == s.Negated {
					return fmt.Sprintf("FixedDistanceSets[%d]: summary Chars=%q Negated=%v disagrees with the set %v on %q", i, string(s.Chars), s.Negated, s.Set, t[q])
				}
			} else if s.Range != nil {
				in := t[q] >= s.Range.First && t[q] <= s.Range.Last
				if in == s.Negated {
					return fmt.Sprintf("FixedDistanceSets[%d]: summary Range=%v Negated=%v disagrees with the set %v on %q", i, *s.Range, s.Negated, s.Set, t[q])
				}
			}
		}
	case syntax.LiteralAfterLoop_LeftToRight:
		l := o.LiteralAfterLoop
		ok := false
		for q := p; q <= n; q++ {
			switch {
			case l.String != "":
				if hasPrefixAt(t, q, []rune(l.String), l.StringIgnoreCase) {
					ok = true
				}
			case len(l.Chars) > 0:
				if q < n && strings.ContainsRune(string(l.Chars), t[q]) {
					ok = true
				}
			default:
				if q < n && t[q] == l.Char {
					ok = true
				}
			}
			if ok || q == n || !l.LoopNode.Set.CharIn(t[q]) {
				break
			}
		}
		if !ok {
			return fmt.Sprintf("LiteralAfterLoop (string %q chars %q char %q) does not follow a run of loop-set runes starting at %d", l.String, string(l.Chars), l.Char, p)
		}
	case syntax.RequiredLandmarkChain_LeftToRight:
		if msg := f.landmarks(t, p); msg != "" {
			return msg
		}
	case syntax.TrailingAnchor_FixedLength_LeftToRight_End, syntax.TrailingAnchor_FixedLength_LeftToRight_EndZ:
		if length != o.MinRequiredLength {
			return fmt.Sprintf("fixed-length mode with length %d but the match has length %d", o.MinRequiredLength, length)
		}
	}
	// ---- legacy first-char set and Boyer-Moore prefix
	if fc := f.Code.FcPrefix; fc != nil {
		q := p
		if f.RTL {
			q = p - 1
		}
		if q < 0 || q >= n {
			return fmt.Sprintf("FcPrefix is published but the match at %d consumes no first rune", p)
		}
		c := t[q]
		if fc.CaseInsensitive {
			c = unicode.ToLower(c)
		}
		if !fc.PrefixSet.CharIn(c) {
			return fmt.Sprintf("FcPrefix=%v (ci=%v) does not contain the first rune %q of the match at %d", fc.PrefixSet.String(), fc.CaseInsensitive, t[q], p)
		}
	}
	if bm := f.Code.BmPrefix; bm != nil {
		pat := []rune(bm.String())
		q := p
		if f.RTL {
			q = p - len(pat)
		}
		ok := q >= 0 && q+len(pat) <= n
		ci := f.bmCI
		for i := 0; ok && i < len(pat); i++ {
			c := t[q+i]
			if ci {
				c = unicode.ToLower(c)
			}
			if c != pat[i] {
				ok = false
			}
		}
		if !ok {
			return fmt.Sprintf("BmPrefix=%q (ci=%v) is not at the matching position %d", string(pat), ci, p)
		}
		// the search tables must agree with the pattern text: scanning from any position before the
		// match must stop at or before the match (the first occurrence cannot lie beyond it)
		starts := []int{0, p / 2, p}
		if f.RTL {
			starts = []int{n, (p + n + 1) / 2, p}
		}
		for _, from := range starts {
			res := bm.Scan(t, from, 0, n)
			if !f.RTL && (res < from || res > p) {
				return fmt.Sprintf("BmPrefix=%q: Scan from %d returns %d although the pattern matches (and the prefix occurs) at %d", string(pat), from, res, p)
			}
			if f.RTL && (res > from || res < p) {
				return fmt.Sprintf("BmPrefix=%q (right-to-left): Scan from %d returns %d although the pattern matches (and the prefix ends) at %d", string(pat), from, res, p)
			}
		}
	}
	return ""
}

func (f *Facts) landmarks(t []rune, p int) string {
	ch := f.Opt.LandmarkChain
	n := len(t)
	minLen := func(l syntax.RequiredLandmark) int {
		m := -1
		for _, a := range l.Alternatives {
			k := a.MinRepeat
			if len(a.Literal) > 0 {
				k = len(a.Literal)
			}
			if m < 0 || k < m {
				m = k
			}
		}
		if m < 1 {
			m = 1
		}
		return m
	}
	coreAt := func(a syntax.RequiredLandmarkAlternative, q int) bool {
		if a.RequireWhitespaceBefore && (q == 0 || a.LeadingWhitespaceSet == nil || !a.LeadingWhitespaceSet.CharIn(t[q-1])) {
			return false
		}
		if len(a.Literal) > 0 {
			if !hasPrefixAt(t, q, a.Literal, false) {
				return false
			}
			e := q + len(a.Literal)
			return !a.RequireWhitespaceAfter || (e < n && a.TrailingWhitespaceSet != nil && a.TrailingWhitespaceSet.CharIn(t[e]))
		}
		if a.Set == nil {
			return false
		}
		k := 0
		for q+k < n && a.Set.CharIn(t[q+k]) && (a.MaxRepeat <= 0 || k < a.MaxRepeat) {
			k++
		}
		if k < a.MinRepeat {
			return false
		}
		if !a.RequireWhitespaceAfter {
			return true
		}
		for j := a.MinRepeat; j <= k; j++ {
			if q+j < n && a.TrailingWhitespaceSet != nil && a.TrailingWhitespaceSet.CharIn(t[q+j]) {
				return true
			}
		}
		return false
	}
	// landmark 0 directly follows the leading loop (and its own leading whitespace)
	first := -1
	for q := p; q <= n && first < 0; q++ {
		for _, a := range ch.Landmarks[0].Alternatives {
			if !coreAt(a, q) {
				continue
			}
			// t[p:q) must be loop-set runes followed by runes of this alternative's leading whitespace
			x := q
			for x > p && a.LeadingWhitespaceSet != nil && a.LeadingWhitespaceSet.CharIn(t[x-1]) {
				x--
			}
			ok := true
			for y := p; y < x; y++ {
				if !ch.LeadingLoopSet.CharIn(t[y]) {
					ok = false
					// whitespace runes may also have been consumed by the loop: accept if every rune is in either set
					break
				}
			}
			if !ok {
				ok = true
				for y := p; y < q; y++ {
					if !ch.LeadingLoopSet.CharIn(t[y]) && !(a.LeadingWhitespaceSet != nil && a.LeadingWhitespaceSet.CharIn(t[y])) {
						ok = false
						break
					}
				}
			}
			if ok {
				first = q
				break
			}
		}
	}
	if first < 0 {
		return fmt.Sprintf("LandmarkChain: no alternative of the first landmark follows a run of leading-loop runes starting at %d", p)
	}
	from := first + minLen(ch.Landmarks[0])
	for i := 1; i < len(ch.Landmarks); i++ {
		found := -1
		for q := from; q <= n && found < 0; q++ {
			for _, a := range ch.Landmarks[i].Alternatives {
				if coreAt(a, q) {
					found = q
					break
				}
			}
		}
		if found < 0 {
			return fmt.Sprintf("LandmarkChain: landmark %d does not occur after position %d", i, from)
		}
		from = found + minLen(ch.Landmarks[i])
	}
	return ""
}

// NewFacts collects the published facts of re.
func NewFacts(re *regexp2.Regexp, pattern string, opts regexp2.RegexOptions, codeGen bool) *Facts {
	code := regexp2.VerifCode(re)
	f := &Facts{Code: code, Opt: code.FindOptimizations, RTL: opts&regexp2.RightToLeft != 0,
		RE2ECMA: opts&(regexp2.RE2|regexp2.ECMAScript) != 0, ECMA: opts&regexp2.ECMAScript != 0, TreeMin: -1}
	if tree, err := syntax.Parse(pattern, syntax.ParseOptions{RegexOptions: syntax.RegexOptions(opts), CodeGen: codeGen}); err == nil && tree.Root != nil {
		f.TreeMin = tree.Root.ComputeMinLength()
	}
	if bm := code.BmPrefix; bm != nil {
		// the case-insensitivity flag is not exported: learn it by probing with the upper-cased pattern
		pat := []rune(bm.String())
		up := []rune(strings.ToUpper(string(pat)))
		if len(up) == len(pat) && string(up) != string(pat) {
			at := 0
			if f.RTL {
				at = len(up)
			}
			f.bmCI = bm.IsMatch(up, at, 0, len(up))
		}
	}
	o := f.Opt
	add := func(c bool, k string) {
		if c {
			f.Kinds = append(f.Kinds, k)
		}
	}
	add(o.MaxPossibleLength >= 0, "max-length")
	add(o.LeadingAnchor != syntax.NtUnknown, "leading-anchor")
	add(o.TrailingAnchor != syntax.NtUnknown, "trailing-anchor")
	add(o.LeadingPrefix != "", "leading-prefix")
	add(len(o.LeadingPrefixes) > 0, "leading-prefixes")
	add(o.FixedDistanceLiteral.S != "" || o.FixedDistanceLiteral.C != 0, "fixed-distance-literal")
	add(len(o.FixedDistanceSets) > 0, "fixed-distance-sets")
	add(o.LiteralAfterLoop != nil, "literal-after-loop")
	add(o.LandmarkChain != nil, "landmark-chain")
	add(code.FcPrefix != nil, "fc-prefix")
	add(code.BmPrefix != nil, "bm-prefix")
	add(code.Anchors != 0, "anchors")
	return f
}
