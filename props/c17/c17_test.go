package c17

import (
	"fmt"
	"reflect"
	"sort"
	"strconv"
	"testing"

	regexp2 "github.com/dlclark/regexp2/v2"
	"pgregory.net/rapid"

	"verif/internal/ast"
	"verif/internal/h"
)

// GSpec is one generated parenthesis.
type GSpec struct {
	Kind   string  `json:"kind"` // "plain", "named", "numbered", "noncap"
	Name   string  `json:"name,omitempty"`
	Num    int     `json:"num,omitempty"`
	Kids   []GSpec `json:"kids,omitempty"`
	OptOn  string  `json:"opt_on,omitempty"`  // an inline switch (?n) / (?-n) placed before this group
	OptOff string  `json:"opt_off,omitempty"` //
}

type Case struct {
	Groups []GSpec `json:"groups"`
	Mode   string  `json:"mode"` // default | captureorder | ecma | re2
	N      bool    `json:"explicit_capture,omitempty"`
}

func TestMain(m *testing.M) {
	h.Setup("C17",
		"a sequence of 1-8 parentheses (nesting depth <= 2), each matching its own distinct token, randomly unnamed / named / explicitly numbered (sparse, up to 40) / duplicate-named / non-capturing, with (?n) / (?-n) switches and the ExplicitCapture option, x modes {default, MaintainCaptureOrder, ECMAScript, RE2 with (?P<name>)}; one evaluation = one pattern: the harness's own implementation of the documented numbering rule predicts number and name of every parenthesis; GetGroupNumbers/GetGroupNames, both lookup directions, Groups() order, GroupByNumber, GroupByName, backreferences by number and name, and $n / ${name} replacements must all designate the predicted group (observed through the distinct token each group captures); non-trivial = at least two naming kinds are mixed, or numbers are sparse, or a name is duplicated, or ExplicitCapture is toggled; distinct = hash of the pattern and mode",
		map[string]float64{"mixed-kinds": 0.4, "sparse": 0.15, "duplicate-name": 0.08, "explicit-capture": 0.15, "mode=captureorder": 0.08, "mode=ecma": 0.06, "mode=re2": 0.1, "nested": 0.2},
		"explicitly numbered groups are not generated under MaintainCaptureOrder / ECMAScript (the documented rule says pure pattern order there and does not say what an explicit number means)",
		"duplicate names are not generated under ECMAScript (rejected by the parser, as in ECMAScript)")
	h.Ceiling("compile-error", 0.01)
	h.Main(m)
}

func genGroup(t *rapid.T, c *Case, depth int, names *[]string) GSpec {
	g := GSpec{}
	kinds := []string{"plain", "plain", "named", "named", "noncap"}
	if c.Mode == "default" || c.Mode == "re2" {
		kinds = append(kinds, "numbered")
	}
	g.Kind = rapid.SampledFrom(kinds).Draw(t, "kind")
	switch g.Kind {
	case "named":
		if c.Mode != "ecma" && len(*names) > 0 && rapid.IntRange(0, 3).Draw(t, "dup") == 0 {
			g.Name = rapid.SampledFrom(*names).Draw(t, "dupname")
		} else {
			g.Name = fmt.Sprintf("g%d", len(*names))
			if rapid.IntRange(0, 5).Draw(t, "oddname") == 0 {
				g.Name = rapid.SampledFrom([]string{"_x", "N9", "x_1", "Ab"}).Draw(t, "odd") + strconv.Itoa(len(*names))
			}
			*names = append(*names, g.Name)
		}
	case "numbered":
		g.Num = rapid.SampledFrom([]int{1, 2, 3, 4, 5, 7, 9, 12, 20, 40}).Draw(t, "num")
	}
	if rapid.IntRange(0, 3).Draw(t, "nswitch") == 0 {
		if rapid.Bool().Draw(t, "non") {
			g.OptOn = "n"
		} else {
			g.OptOff = "n"
		}
	}
	if depth > 0 && rapid.IntRange(0, 2).Draw(t, "nest") == 0 {
		n := rapid.IntRange(1, 3).Draw(t, "nkids")
		for i := 0; i < n; i++ {
			g.Kids = append(g.Kids, genGroup(t, c, depth-1, names))
		}
	}
	return g
}

func gen1(t *rapid.T) Case {
	c := Case{Mode: rapid.SampledFrom([]string{"default", "default", "default", "captureorder", "ecma", "re2"}).Draw(t, "mode")}
	c.N = rapid.IntRange(0, 5).Draw(t, "N") == 0
	var names []string
	n := rapid.IntRange(1, 8).Draw(t, "ngroups")
	for i := 0; i < n; i++ {
		c.Groups = append(c.Groups, genGroup(t, &c, 2, &names))
	}
	return c
}

// build turns the spec into an AST; tokens are "t<k>;" with k the parenthesis ordinal.
type built struct {
	root   *ast.Node
	parens []*ast.Node          // every generated parenthesis (capturing or not) in order
	text   map[*ast.Node]string // the text each parenthesis matches
}

func build(c Case) *built {
	b := &built{text: map[*ast.Node]string{}}
	ord := 0
	var mk func(g GSpec) []*ast.Node
	mk = func(g GSpec) []*ast.Node {
		ord++
		tok := fmt.Sprintf("t%d;", ord)
		var gk ast.GKind
		switch g.Kind {
		case "plain":
			gk = ast.GCap
		case "named":
			gk = ast.GNamed
			if c.Mode == "re2" {
				gk = ast.GPyNamed
			}
		case "numbered":
			gk = ast.GNumbered
		default:
			gk = ast.GNon
		}
		body := ast.Seq(ast.Str(tok))
		node := ast.Group(gk, body)
		node.S, node.Num = g.Name, g.Num
		b.parens = append(b.parens, node)
		text := tok
		for _, k := range g.Kids {
			ks := mk(k)
			body.Kids = append(body.Kids, ks...)
			text += b.text[ks[len(ks)-1]]
		}
		b.text[node] = text
		var out []*ast.Node
		if g.OptOn != "" || g.OptOff != "" {
			out = append(out, &ast.Node{K: ast.KOpt, S: g.OptOn, S2: g.OptOff})
		}
		return append(out, node)
	}
	root := ast.Seq()
	for _, g := range c.Groups {
		root.Kids = append(root.Kids, mk(g)...)
	}
	b.root = root
	return b
}

func compileOpts(c Case) []regexp2.CompileOption {
	var o regexp2.RegexOptions
	if c.N {
		o |= regexp2.ExplicitCapture
	}
	out := []regexp2.CompileOption{}
	switch c.Mode {
	case "captureorder":
		out = append(out, regexp2.OptionMaintainCaptureOrder())
	case "ecma":
		o |= regexp2.ECMAScript
	case "re2":
		o |= regexp2.RE2
	}
	return append(out, o)
}

func check(c Case) error {
	b := build(c)
	order := c.Mode == "captureorder" || c.Mode == "ecma"
	info := ast.Annotate(b.root, ast.Opts{N: c.N}, order)
	pattern := ast.Print(b.root, ast.PrintOpts{ECMA: c.Mode == "ecma"})
	input := ""
	for _, k := range b.root.Kids {
		if k.K == ast.KGroup {
			input += b.text[k]
		}
	}
	fail := func(format string, a ...any) error {
		return fmt.Errorf("pattern %q mode=%s n=%v: %s", pattern, c.Mode, c.N, fmt.Sprintf(format, a...))
	}
	re, err := regexp2.Compile(pattern, compileOpts(c)...)
	if err != nil {
		h.Discard("compile-error")
		h.Label("compile-error: " + err.Error())
		return nil
	}
	h.Eval()
	// ---- predicted map
	wantNums := append([]int{0}, info.GroupNums...)
	if got := re.GetGroupNumbers(); !reflect.DeepEqual(got, wantNums) {
		return fail("GetGroupNumbers = %v, documented rule gives %v", got, wantNums)
	}
	names := re.GetGroupNames()
	if len(names) != len(wantNums) {
		return fail("GetGroupNames has %d entries for %d groups", len(names), len(wantNums))
	}
	for i, num := range wantNums {
		wantName := strconv.Itoa(num)
		if n, ok := info.NumToName[num]; ok {
			wantName = n
		} else if c.Mode == "ecma" {
			wantName = "" // unnamed groups have no name in ECMAScript mode
		}
		if c.Mode != "ecma" || wantName != "" {
			if names[i] != wantName {
				return fail("GetGroupNames()[%d] = %q, predicted %q for group %d", i, names[i], wantName, num)
			}
			if got := re.GroupNameFromNumber(num); got != wantName {
				return fail("GroupNameFromNumber(%d) = %q, predicted %q", num, got, wantName)
			}
			if got := re.GroupNumberFromName(wantName); got != num {
				return fail("GroupNumberFromName(%q) = %d, predicted %d", wantName, got, num)
			}
		}
	}
	// ---- what each group captures on the input t1;t2;...
	m, err := re.FindStringMatch(input)
	if err != nil || m == nil {
		return fail("pattern does not match its own token string %q (err=%v)", input, err)
	}
	// ---- numbers and names that designate no group (gaps of a sparse numbering, out of range, unknown names)
	isNum := map[int]bool{}
	maxNum := 0
	for _, n := range wantNums {
		isNum[n] = true
		if n > maxNum {
			maxNum = n
		}
	}
	for n := -1; n <= maxNum+2; n++ {
		if isNum[n] {
			continue
		}
		if got := re.GroupNameFromNumber(n); got != "" {
			return fail("GroupNameFromNumber(%d) = %q although no group has that number (numbers %v)", n, got, wantNums)
		}
		if g := m.GroupByNumber(n); g != nil {
			return fail("GroupByNumber(%d) returns a group (%q) although no group has that number (numbers %v)", n, g.String(), wantNums)
		}
		if got := re.GroupNumberFromName(strconv.Itoa(n)); got != -1 {
			return fail("GroupNumberFromName(%q) = %d although no group has that number or name", strconv.Itoa(n), got)
		}
	}
	if got := re.GroupNumberFromName("no_such_group"); got != -1 {
		return fail("GroupNumberFromName(unknown name) = %d, want -1", got)
	}
	if g := m.GroupByName("no_such_group"); g != nil {
		return fail("GroupByName(unknown name) returns a group")
	}
	wantCaps := map[int][]string{}
	for _, p := range b.parens {
		if p.Cap > 0 {
			wantCaps[p.Cap] = append(wantCaps[p.Cap], b.text[p])
		}
	}
	// nested groups close before their parent: capture order within one number follows closing order
	wantCaps = closingOrder(b, wantCaps)
	gs := m.Groups()
	for i, num := range wantNums {
		if num == 0 {
			continue
		}
		var got []string
		for _, cp := range gs[i].Captures {
			got = append(got, cp.String())
		}
		if !reflect.DeepEqual(got, wantCaps[num]) {
			return fail("Groups()[%d] (number %d) captured %q, the parentheses predicted for that number match %q", i, num, got, wantCaps[num])
		}
		last := wantCaps[num][len(wantCaps[num])-1]
		if g := m.GroupByNumber(num); g == nil || g.String() != last {
			return fail("GroupByNumber(%d) = %v, want %q", num, g, last)
		}
		if n, ok := info.NumToName[num]; ok {
			if g := m.GroupByName(n); g == nil || g.String() != last {
				return fail("GroupByName(%q) = %v, want %q", n, g, last)
			}
		}
		if gs[i].Name != names[i] {
			return fail("Groups()[%d].Name = %q, GetGroupNames()[%d] = %q", i, gs[i].Name, i, names[i])
		}
		// replacements
		out, err := re.Replace(input, "<${"+strconv.Itoa(num)+"}>", -1, 1)
		if err != nil || out != "<"+last+">" {
			return fail("Replace with ${%d} = %q (err=%v), want %q", num, out, err, "<"+last+">")
		}
		if n, ok := info.NumToName[num]; ok && c.Mode != "ecma" {
			out, err := re.Replace(input, "<${"+n+"}>", -1, 1)
			if err != nil || out != "<"+last+">" {
				return fail("Replace with ${%s} = %q (err=%v), want %q", n, out, err, "<"+last+">")
			}
		}
		// backreferences: the pattern followed by a reference must match input + that token
		refs := []string{`\` + strconv.Itoa(num) + `(?:)`}
		if n, ok := info.NumToName[num]; ok {
			refs = append(refs, `\k<`+n+`>`)
		}
		for _, ref := range refs {
			re2, err := regexp2.Compile(`\A(?:`+pattern+`)`+ref+`\z`, compileOpts(c)...)
			if err != nil {
				return fail("pattern followed by %s does not compile: %v", ref, err)
			}
			if ok, _ := re2.MatchString(input + last); !ok {
				return fail("backreference %s does not designate the group that captured %q", ref, last)
			}
			for num2, caps := range wantCaps {
				other := caps[len(caps)-1]
				if num2 != num && other != last {
					if ok, _ := re2.MatchString(input + other); ok {
						return fail("backreference %s also accepts %q (group %d)", ref, other, num2)
					}
					break
				}
			}
		}
	}
	// ---- labels
	kinds := map[ast.GKind]bool{}
	dup, nested := false, false
	seen := map[string]bool{}
	for _, p := range b.parens {
		if p.IsCapturing() {
			kinds[p.G] = true
		}
		if p.S != "" {
			if seen[p.S] {
				dup = true
			}
			seen[p.S] = true
		}
	}
	for _, g := range c.Groups {
		if len(g.Kids) > 0 {
			nested = true
		}
	}
	sparse := len(wantNums) > 0 && wantNums[len(wantNums)-1] != len(wantNums)-1
	nToggle := c.N || b.root.Has(func(x *ast.Node) bool { return x.K == ast.KOpt })
	h.LabelIf(len(kinds) >= 2, "mixed-kinds")
	h.LabelIf(sparse, "sparse")
	h.LabelIf(dup, "duplicate-name")
	h.LabelIf(nToggle, "explicit-capture")
	h.LabelIf(nested, "nested")
	h.Label("mode=" + c.Mode)
	if len(kinds) >= 2 || sparse || dup || nToggle {
		h.NonTrivial(pattern+"|"+c.Mode+fmt.Sprint(c.N), func() any {
			return map[string]any{"pattern": pattern, "mode": c.Mode, "explicit_capture": c.N, "numbers": wantNums, "names": names}
		})
	}
	return nil
}

// closingOrder orders the expected captures of each number by the position where the parenthesis closes.
func closingOrder(b *built, caps map[int][]string) map[int][]string {
	type ent struct {
		end  int
		ord  int
		text string
	}
	pos := 0
	ends := map[*ast.Node]int{}
	var walk func(n *ast.Node)
	walk = func(n *ast.Node) {
		switch n.K {
		case ast.KLit:
			pos += len(n.R)
		case ast.KGroup, ast.KSeq:
			for _, k := range n.Kids {
				walk(k)
			}
			if n.K == ast.KGroup {
				ends[n] = pos
			}
		}
	}
	walk(b.root)
	out := map[int][]string{}
	tmp := map[int][]ent{}
	for i, p := range b.parens {
		if p.Cap > 0 {
			tmp[p.Cap] = append(tmp[p.Cap], ent{ends[p], i, b.text[p]})
		}
	}
	for k, v := range tmp {
		// a nested parenthesis ending at the same position closes before its parent
		sort.SliceStable(v, func(i, j int) bool { return v[i].end < v[j].end || (v[i].end == v[j].end && v[i].ord > v[j].ord) })
		for _, e := range v {
			out[k] = append(out[k], e.text)
		}
	}
	return out
}

func prop(t *rapid.T) {
	c := gen1(t)
	if err := h.Safely(func() error { return check(c) }); err != nil {
		h.Violation(t, c, "%s", err.Error())
	}
}

func TestProp(t *testing.T) { rapid.Check(t, prop) }

// FuzzProp lets Go's coverage-guided mutator drive the structured generators (thorough tier).
func FuzzProp(f *testing.F) { f.Fuzz(rapid.MakeFuzz(prop)) }

func TestReplay(t *testing.T) { h.RunReplay(t, check) }
