package c16

import (
	"fmt"
	"testing"
	"unicode"

	regexp2 "github.com/dlclark/regexp2/v2"
	"github.com/dlclark/regexp2/v2/syntax"
	"pgregory.net/rapid"

	"verif/internal/cls"
	"verif/internal/gen"
	"verif/internal/h"
)

type Case struct {
	Class *cls.Expr `json:"class"`
	Text  string    `json:"text"`
	I     bool      `json:"ignorecase,omitempty"`
	ECMA  bool      `json:"ecma,omitempty"`
	RE2   bool      `json:"re2,omitempty"`
	Runes []rune    `json:"runes,omitempty"` // replay: only these runes
}

func TestMain(m *testing.M) {
	h.Setup("C16",
		"class expressions from a random class grammar (chars, ranges, shorthands, \\p{..}/\\P{..} over general categories and scripts, POSIX names under RE2, negation, subtraction nested up to depth 3) x options subsets of {IgnoreCase, ECMAScript, RE2} x ASCII bitmap on/off; rune domain = U+0000-U+024F exhaustively, every range endpoint +-1, surrogate and plane boundaries, U+10FFFF and 120 sampled code points (thorough: every code point through the parsed set); one evaluation = one (class, options, rune) compared through 11 lookup paths (incl. the class as a leading nullable loop followed by another atom, [..]*! and [..]?m, with and without the ASCII bitmap): CharIn of the set in the parsed tree, and MatchRunes of \\A[..]\\z, [..]+ and x*[..] on the single rune, each with and without the ASCII bitmap; non-trivial = the class has >=2 item kinds or a subtraction or a negation and the rune domain contains both members and non-members; distinct = hash of (class text, options, rune)",
		map[string]float64{"subtraction/classes": 0.1, "negated/classes": 0.2, "ignorecase/classes": 0.15, "re2/classes": 0.1, "ecma/classes": 0.05, "prop/classes": 0.1},
		"raw category/script membership comes from Go's unicode tables, which the engine also uses; the oracle is independent in the algebra, canonicalisation and case handling",
		"under IgnoreCase members and the rune domain are limited to ASCII plus letters with a plain upper/lower pair (plus complement-style classes whose gap lies in 0x21-0x5A, where folding is unambiguous); \\P{Lu|Ll|Lt} is not generated under IgnoreCase (no agreed meaning)",
		"under IgnoreCase \\p{Lu}, \\p{Ll}, \\p{Lt} each mean the union of the three (documented in the engine's source)")
	h.Ceiling("compile-error", 0.02)
	h.Main(m)
}

func gen1(t *rapid.T) Case {
	var c Case
	switch rapid.IntRange(0, 9).Draw(t, "mode") {
	case 0, 1:
		c.I = true
	case 2:
		c.RE2 = true
	case 3:
		c.RE2, c.I = true, true
	case 4:
		c.ECMA = true
	}
	cfg := gen.Cfg{Full: !c.ECMA, CaseSafe: c.I}
	if c.I {
		cfg.Letters = append([]rune("abcxyzABXYZ019 _-!~"), gen.PairLetters...)
	}
	c.Class = gen.ClassExpr(t, cfg, 3)
	fix(c.Class, c)
	if c.RE2 && rapid.IntRange(0, 1).Draw(t, "posix") == 0 {
		c.Class.Items = append(c.Class.Items, cls.Item{Kind: cls.Posix, Name: rapid.SampledFrom([]string{"alnum", "alpha", "ascii", "blank", "cntrl", "digit", "graph", "lower", "print", "punct", "space", "upper", "word", "xdigit"}).Draw(t, "posixname"), Neg: rapid.IntRange(0, 3).Draw(t, "posneg") == 0})
	}
	if c.I && !c.Class.Neg && rapid.IntRange(0, 5).Draw(t, "complementstyle") == 0 {
		// "everything but a small gap", written positively: canonicalisation stores it as the negated gap.
		// The gap lies in 0x21-0x5A (no lower-case letters), so case folding stays inside the agreed domain:
		// the lower-case images of all letters are members already.
		x := rune(rapid.IntRange(0x21, 0x58).Draw(t, "gaplo"))
		y := x + 1 + rune(rapid.IntRange(1, int(0x5A-x)).Draw(t, "gaplen"))
		c.Class.Items = append([]cls.Item{{Kind: cls.Range, Lo: 0, Hi: x}, {Kind: cls.Range, Lo: y, Hi: 0x10FFFF}}, c.Class.Items...)
		if c.Class.Sub != nil && rapid.Bool().Draw(t, "dropsub") {
			c.Class.Sub = nil
		}
	}
	c.Text = c.Class.Print(c.ECMA)
	return c
}

// fix removes what the property excludes under IgnoreCase.
func fix(e *cls.Expr, c Case) {
	if e == nil {
		return
	}
	for i := range e.Items {
		it := &e.Items[i]
		if c.I && it.Kind == cls.Prop && it.Neg && (it.Name == "Lu" || it.Name == "Ll" || it.Name == "Lt") {
			it.Neg = false
		}
		if c.I && it.Kind == cls.Range && (it.Lo > 0x7f || it.Hi > 0x7f) {
			// ranges keep ASCII endpoints under IgnoreCase
			*it = cls.Item{Kind: cls.Char, Lo: it.Lo}
		}
	}
	fix(e.Sub, c)
}

var baseDomain []rune

func init() {
	for r := rune(0); r <= 0x24F; r++ {
		baseDomain = append(baseDomain, r)
	}
	baseDomain = append(baseDomain, 0xD7FF, 0xD800, 0xDFFF, 0xE000, 0xFFFD, 0xFFFE, 0xFFFF, 0x10000, 0x10FFFF, 0x2028, 0x2029, 0x3000, 0xFEFF, 0x1680, 0x200C, 0x200D, 0x212A, 0x017F)
	// sampled code points spread over the planes (deterministic)
	x := uint32(12345)
	for i := 0; i < 120; i++ {
		x = x*1664525 + 1013904223
		baseDomain = append(baseDomain, rune(x%0x110000))
	}
}

type paths struct {
	set    func(rune) (bool, bool) // CharIn of the parsed node (second result: available)
	exact  [2]*regexp2.Regexp
	loop   [2]*regexp2.Regexp
	prefix [2]*regexp2.Regexp
	// the class as a leading nullable loop followed by another atom (the first-character analysis
	// merges the follower's set into a copy of the loop's set): [..]*! and [..]?m
	star [2]*regexp2.Regexp
	opt  [2]*regexp2.Regexp
}

func options(c Case) regexp2.RegexOptions {
	var o regexp2.RegexOptions
	if c.I {
		o |= regexp2.IgnoreCase
	}
	if c.ECMA {
		o |= regexp2.ECMAScript
	}
	if c.RE2 {
		o |= regexp2.RE2
	}
	return o
}

func build(c Case) (*paths, error) {
	p := &paths{}
	o := options(c)
	tree, err := syntax.Parse(c.Text, syntax.ParseOptions{RegexOptions: syntax.RegexOptions(o)})
	if err != nil {
		return nil, err
	}
	node := tree.Root
	for node != nil && node.T == syntax.NtCapture && len(node.Children) == 1 {
		node = node.Children[0]
	}
	switch {
	case node != nil && node.Set != nil && node.T == syntax.NtSet:
		set := node.Set
		p.set = func(r rune) (bool, bool) { return set.CharIn(r), true }
	case node != nil && node.T == syntax.NtOne:
		ch := node.Ch
		p.set = func(r rune) (bool, bool) { return r == ch, true }
	case node != nil && node.T == syntax.NtNotone:
		ch := node.Ch
		p.set = func(r rune) (bool, bool) { return r != ch, true }
	case node != nil && node.T == syntax.NtNothing:
		p.set = func(r rune) (bool, bool) { return false, true }
	default:
		p.set = func(r rune) (bool, bool) { return false, false }
	}
	for i, nb := range []bool{false, true} {
		co := []regexp2.CompileOption{o}
		if nb {
			co = append(co, regexp2.OptionDisableCharClassASCIIBitmap())
		}
		if p.exact[i], err = regexp2.Compile(`\A`+c.Text+`\z`, co...); err != nil {
			return nil, err
		}
		if p.loop[i], err = regexp2.Compile(c.Text+`+`, co...); err != nil {
			return nil, err
		}
		if p.prefix[i], err = regexp2.Compile(`x*`+c.Text, co...); err != nil {
			return nil, err
		}
		if p.star[i], err = regexp2.Compile(c.Text+`*!`, co...); err != nil {
			return nil, err
		}
		if p.opt[i], err = regexp2.Compile(c.Text+`?m`, co...); err != nil {
			return nil, err
		}
	}
	return p, nil
}

func orbitOK(r rune) bool {
	n := 1
	for c := unicode.SimpleFold(r); c != r; c = unicode.SimpleFold(c) {
		n++
	}
	if n == 1 && (unicode.ToLower(r) != r || unicode.ToUpper(r) != r) {
		return false // cased without a simple fold partner (U+0130, U+0131): not a plain pair
	}
	return n <= 2
}

func check(c Case) error {
	p, err := build(c)
	if err != nil {
		h.Discard("compile-error")
		h.Label("compile-error: " + err.Error())
		return nil
	}
	h.Label("classes")
	h.LabelIf(c.Class.Sub != nil, "subtraction")
	h.LabelIf(c.Class.Neg, "negated")
	h.LabelIf(c.I, "ignorecase")
	h.LabelIf(c.RE2, "re2")
	h.LabelIf(c.ECMA, "ecma")
	kinds := c.Class.Kinds()
	h.LabelIf(kinds[cls.Prop], "prop")
	h.LabelIf(kinds[cls.Posix], "posix")
	structured := len(kinds) >= 2 || c.Class.Sub != nil || c.Class.Neg
	opts := cls.Opts{I: c.I, ECMA: c.ECMA, RE2: c.RE2}
	domain := c.Runes
	if domain == nil {
		domain = append([]rune{}, baseDomain...)
		for _, e := range c.Class.Endpoints() {
			domain = append(domain, e-1, e, e+1)
		}
	}
	// does the domain contain both members and non-members?
	in, out := false, false
	type obs struct {
		r    rune
		want bool
	}
	var work []obs
	for _, r := range domain {
		if r < 0 || r > unicode.MaxRune {
			continue
		}
		if c.I && !(r < 0x80 || orbitOK(r)) {
			continue
		}
		w := cls.In(r, c.Class, opts)
		if w {
			in = true
		} else {
			out = true
		}
		work = append(work, obs{r, w})
	}
	for _, ob := range work {
		r, want := ob.r, ob.want
		h.Eval()
		fail := func(path string, got bool) error {
			red := c
			red.Runes = []rune{r}
			return &failure{red, fmt.Sprintf("class %s opts{i=%v ecma=%v re2=%v}: rune U+%04X: %s says %v, set algebra says %v", c.Text, c.I, c.ECMA, c.RE2, r, path, got, want)}
		}
		if got, ok := p.set(r); ok && got != want {
			return fail("CharIn of the parsed set", got)
		}
		in1 := []rune{r}
		for i, name := range []string{"bitmap", "nobitmap"} {
			got, err := p.exact[i].MatchRunes(in1)
			if err != nil {
				return fail("\\A[..]\\z/"+name+" error "+err.Error(), false)
			}
			if got != want {
				return fail("\\A[..]\\z ("+name+")", got)
			}
			got, _ = p.loop[i].MatchRunes(in1)
			if got != want {
				return fail("[..]+ ("+name+")", got)
			}
			got, _ = p.prefix[i].MatchRunes(in1)
			if got != want {
				return fail("x*[..] ("+name+")", got)
			}
			// on r followed by the follower the first match is (0,2) exactly when r is a member
			for _, f := range []struct {
				re   *regexp2.Regexp
				y    rune
				text string
			}{{p.star[i], '!', "[..]*!"}, {p.opt[i], 'm', "[..]?m"}} {
				y := f.y
				if c.I && r == unicode.ToUpper(y) {
					continue // under IgnoreCase the follower itself matches r
				}
				m, err := f.re.FindRunesMatch([]rune{r, y})
				got := err == nil && m != nil && m.RuneIndex == 0 && m.RuneLength == 2
				if got != want {
					return fail(f.text+" on r+follower ("+name+")", got)
				}
			}
		}
		if structured && in && out {
			h.NonTrivial(fmt.Sprintf("%s|%v|%v|%v|%d", c.Text, c.I, c.ECMA, c.RE2, r), func() any {
				return map[string]any{"class": c.Text, "ignorecase": c.I, "ecma": c.ECMA, "re2": c.RE2, "rune": fmt.Sprintf("U+%04X", r), "member": want}
			})
		}
	}
	// thorough: every code point through the parsed set
	if h.Thorough() && c.Runes == nil && !c.I {
		for r := rune(0); r <= unicode.MaxRune; r++ {
			if got, ok := p.set(r); ok {
				if want := cls.In(r, c.Class, opts); got != want {
					red := c
					red.Runes = []rune{r}
					return &failure{red, fmt.Sprintf("class %s opts{ecma=%v re2=%v}: rune U+%04X: CharIn says %v, set algebra says %v", c.Text, c.ECMA, c.RE2, r, got, want)}
				}
			}
		}
		h.EvalN(int(unicode.MaxRune) + 1)
		h.Label("full-domain")
	}
	return nil
}

type failure struct {
	red Case
	msg string
}

func (f *failure) Error() string { return f.msg }

func prop(t *rapid.T) {
	c := gen1(t)
	if err := h.Safely(func() error { return check(c) }); err != nil {
		red := c
		if f, ok := err.(*failure); ok {
			red = f.red
		}
		h.Violation(t, red, "%s", err.Error())
	}
}

func TestProp(t *testing.T) { rapid.Check(t, prop) }

// FuzzProp lets Go's coverage-guided mutator drive the structured generators (thorough tier).
func FuzzProp(f *testing.F) { f.Fuzz(rapid.MakeFuzz(prop)) }

func TestReplay(t *testing.T) { h.RunReplay(t, check) }
