package c14

import (
	"fmt"
	"runtime"
	"strings"
	"sync"
	"sync/atomic"
	"testing"
	"testing/synctest"
	"time"

	regexp2 "github.com/dlclark/regexp2/v2"
	"pgregory.net/rapid"

	"verif/internal/canon"
	"verif/internal/h"
)

const period = time.Millisecond

func init() {
	regexp2.SetTimeoutCheckPeriod(period)
	// "a match that runs for len(input) milliseconds": a registered engine whose Execute sleeps in
	// 50 microsecond steps (bubble time) and polls CheckTimeout like the interpreter loop does.
	regexp2.RegisterEngine("VERIF-SLOW", regexp2.RuntimeEngineData{
		CapSize:       1,
		FindFirstChar: func(r *regexp2.Runner) bool { return true },
		Execute: func(r *regexp2.Runner) error {
			n := len(r.Runtext)
			step, per := 50*time.Microsecond, 20
			if n > 400 {
				step, per = 250*time.Microsecond, 4 // long matches poll every 250 virtual microseconds
			}
			for i := 0; i < n*per; i++ {
				time.Sleep(step)
				if err := r.CheckTimeout(); err != nil {
					return err
				}
			}
			r.Capture(0, 0, 0)
			return nil
		},
	})
}

// Step is one action of a history.
type Step struct {
	Kind string `json:"kind"`             // long | quick | idle | stop | concurrent | untimed
	D    int    `json:"d_ms,omitempty"`   // timeout
	W    int    `json:"w_ms,omitempty"`   // work (virtual run time of the match)
	Gap  int    `json:"gap_ms,omitempty"` // idle duration
	Ds   []int  `json:"ds_ms,omitempty"`  // concurrent: timeouts
	Ws   []int  `json:"ws_ms,omitempty"`  // concurrent: work
}

type Case struct {
	Steps []Step `json:"steps"`
	// Fresh compiles a new Regexp for every call; otherwise all calls of the history that use
	// one timeout value share one Regexp (and with it the pooled interpreter states, whose
	// deadline field survives from call to call).
	Fresh bool `json:"fresh_regexp,omitempty"`
}

func TestMain(m *testing.M) {
	h.Setup("C14",
		"histories (3-10 steps) of timed long matches (work >> timeout), timed quick matches (work << timeout), idle gaps shorter and longer than timeout + clock slop, StopTimeoutClock calls, groups of 2-4 concurrent timed matches with different deadlines, and untimed matches, timeouts 10 ms - 2 s, clock period 1 ms, all calls of a history that use one timeout value sharing one Regexp (3 of 4 histories; the pooled interpreter state and its deadline field are reused) or a fresh Regexp per call, run inside a testing/synctest bubble (virtual time: the harness owns the clock) against the unmodified clock code; a registered engine polls CheckTimeout every 50 virtual microseconds; one evaluation = one history; oracle: a long match returns a timeout error at virtual elapsed in [d-2ms, d+4ms], a quick match returns at exactly its work time without error, the clock goroutine is gone 1 s + 5 ms after the last deadline and after StopTimeoutClock, and is restarted on demand; plus a small wall-clock leg with real catastrophic patterns through the real interpreter; non-trivial = a history with a timeout that follows an idle gap longer than the previous deadline + slop, or follows StopTimeoutClock, or overlaps another deadline; distinct = hash of the history",
		map[string]float64{"timeout-after-long-idle": 0.15, "timeout-after-stop": 0.15, "concurrent": 0.3, "race-on-stopped-clock": 0.2},
		"virtual time replaces the interpreter by a stub that polls CheckTimeout; that the real interpreter polls often enough is only covered by the lenient wall-clock leg")
	h.Main(m)
}

func genCase(t *rapid.T) Case {
	n := rapid.IntRange(3, 10).Draw(t, "nsteps")
	var c Case
	c.Fresh = rapid.IntRange(0, 3).Draw(t, "freshre") == 0
	d := func() int {
		return rapid.SampledFrom([]int{10, 15, 25, 40, 80, 150, 400, 1000, 2000}).Draw(t, "d")
	}
	for i := 0; i < n; i++ {
		switch rapid.IntRange(0, 16).Draw(t, "kind") {
		case 10, 11:
			// the scenario the stale-clock refresh exists for: idle beyond the clock's life, then a timed match
			dd := d()
			c.Steps = append(c.Steps, Step{Kind: "idle", Gap: rapid.SampledFrom([]int{1100, 1500, 2500, 5000, 30000}).Draw(t, "longgap")},
				Step{Kind: "long", D: dd, W: dd + rapid.IntRange(20, 200).Draw(t, "extra")})
		case 13, 14, 15, 16:
			// two or more timed matches released together on a stopped clock, deadlines more than the clock's 1 s slop apart
			st := Step{Kind: "race"}
			long := rapid.SampledFrom([]int{1200, 1500, 2000}).Draw(t, "racelong")
			st.Ds = append(st.Ds, long)
			st.Ws = append(st.Ws, long+60)
			k := rapid.IntRange(2, 7).Draw(t, "raceshort")
			for j := 0; j < k; j++ {
				st.Ds = append(st.Ds, rapid.SampledFrom([]int{10, 15, 25}).Draw(t, "raced"))
				// a little work, so that the match polls its deadline at least once: a deadline that was
				// computed from a stale clock value is already in the past when the match starts
				st.Ws = append(st.Ws, rapid.IntRange(1, 3).Draw(t, "racework"))
			}
			c.Steps = append(c.Steps, st)
		case 12:
			dd := d()
			c.Steps = append(c.Steps, Step{Kind: "stop"}, Step{Kind: "long", D: dd, W: dd + rapid.IntRange(20, 200).Draw(t, "extra")})
		case 0, 1, 2:
			dd := d()
			c.Steps = append(c.Steps, Step{Kind: "long", D: dd, W: dd + rapid.IntRange(20, 200).Draw(t, "extra")})
		case 3, 4:
			dd := d()
			w := rapid.IntRange(0, dd/2).Draw(t, "w")
			c.Steps = append(c.Steps, Step{Kind: "quick", D: dd, W: w})
			if rapid.IntRange(0, 2).Draw(t, "thenlong") == 0 {
				// the next deadline must be dated from its own start, not from the quick match before it
				c.Steps = append(c.Steps, Step{Kind: "long", D: dd, W: dd + rapid.IntRange(20, 200).Draw(t, "extra")})
			}
		case 5:
			c.Steps = append(c.Steps, Step{Kind: "idle", Gap: rapid.SampledFrom([]int{1, 5, 50, 500, 990, 1010, 1100, 2500, 5000}).Draw(t, "gap")})
		case 6:
			c.Steps = append(c.Steps, Step{Kind: "stop"})
		case 7, 8:
			k := rapid.IntRange(2, 4).Draw(t, "k")
			st := Step{Kind: "concurrent"}
			for j := 0; j < k; j++ {
				dd := d()
				st.Ds = append(st.Ds, dd)
				if rapid.Bool().Draw(t, "clong") {
					st.Ws = append(st.Ws, dd+rapid.IntRange(20, 100).Draw(t, "extra"))
				} else {
					st.Ws = append(st.Ws, rapid.IntRange(0, dd/2).Draw(t, "w"))
				}
			}
			c.Steps = append(c.Steps, st)
		default:
			c.Steps = append(c.Steps, Step{Kind: "untimed", W: rapid.IntRange(0, 30).Draw(t, "w")})
		}
	}
	return c
}

func clockGoroutine() bool {
	buf := make([]byte, 1<<18)
	n := runtime.Stack(buf, true)
	return strings.Contains(string(buf[:n]), "regexp2/v2.runClock")
}

func ms(n int) time.Duration { return time.Duration(n) * time.Millisecond }

// regexps hands out the Regexps of one history: one per timeout value, or a fresh one per call.
type regexps struct {
	fresh bool
	mu    sync.Mutex
	m     map[int]*regexp2.Regexp
}

func (r *regexps) get(d int) *regexp2.Regexp {
	r.mu.Lock()
	defer r.mu.Unlock()
	if re := r.m[d]; re != nil && !r.fresh {
		return re
	}
	re := regexp2.MustCompile("VERIF-SLOW")
	if d > 0 {
		re.MatchTimeout = ms(d)
	}
	if r.m == nil {
		r.m = map[int]*regexp2.Regexp{}
	}
	r.m[d] = re
	return re
}

// timed runs one match of w ms with timeout d (0 = untimed) and checks its own bounds.
func timed(rs *regexps, d, w int) string {
	re := rs.get(d)
	start := time.Now()
	_, err := re.MatchRunes(make([]rune, w))
	el := time.Since(start)
	long := d > 0 && w >= d+20
	switch {
	case d == 0 || !long:
		if err != nil {
			return fmt.Sprintf("match with work %dms and timeout %dms reported %v after %v", w, d, err, el)
		}
		if el != ms(w) {
			return fmt.Sprintf("match with work %dms returned after %v", w, el)
		}
	default:
		if err == nil {
			return fmt.Sprintf("match with work %dms and timeout %dms did not time out (returned after %v)", w, d, el)
		}
		if canon.ErrClass(err) != "timeout" {
			return fmt.Sprintf("unexpected error %v", err)
		}
		if el < ms(d)-2*period || el > ms(d)+4*period {
			return fmt.Sprintf("timeout %dms fired after %v (allowed [%v, %v])", d, el, ms(d)-2*period, ms(d)+4*period)
		}
	}
	return ""
}

// runHistory executes the history in a bubble and returns the first violation (or "").
func runHistory(t *testing.T, c Case) (viol string, labels []string) {
	synctest.Test(t, func(t *testing.T) {
		regexp2.VerifResetClock()
		rs := &regexps{fresh: c.Fresh}
		lastDeadline := time.Now() // latest time any deadline ends (virtual)
		idleSince := time.Time{}
		stopped := false
		note := func(d int) {
			if d > 0 {
				if e := time.Now().Add(ms(d)); e.After(lastDeadline) {
					lastDeadline = e
				}
			}
		}
		for i, st := range c.Steps {
			if viol != "" {
				break
			}
			fail := func(s string) {
				if s != "" && viol == "" {
					viol = fmt.Sprintf("step %d (%s): %s", i, st.Kind, s)
				}
			}
			switch st.Kind {
			case "long", "quick", "untimed":
				d := st.D
				if st.Kind == "untimed" {
					d = 0
				}
				if st.Kind == "long" {
					if !idleSince.IsZero() && time.Since(idleSince) > 0 && time.Now().After(lastDeadline.Add(time.Second+5*period)) {
						labels = append(labels, "timeout-after-long-idle")
					}
					if stopped {
						labels = append(labels, "timeout-after-stop")
					}
				}
				note(d)
				fail(timed(rs, d, st.W))
				if d > 0 {
					stopped = false
				}
				idleSince = time.Now()
			case "idle":
				time.Sleep(ms(st.Gap))
				synctest.Wait()
				// once every deadline is over by 1 s of slop plus a few periods the clock goroutine must be gone
				if time.Now().After(lastDeadline.Add(time.Second + 5*period)) {
					if regexp2.VerifClockRunning() || clockGoroutine() {
						fail(fmt.Sprintf("clock goroutine still running %v after the last deadline", time.Since(lastDeadline)))
					}
				}
			case "stop":
				regexp2.StopTimeoutClock()
				synctest.Wait()
				if regexp2.VerifClockRunning() || clockGoroutine() {
					fail("clock goroutine still running after StopTimeoutClock")
				}
				stopped = true
			case "concurrent", "race":
				labels = append(labels, "concurrent")
				rounds := 1
				if st.Kind == "race" {
					rounds = 1 // (more releases per step cost more than they find: every waiting goroutine spins)
					labels = append(labels, "race-on-stopped-clock")
				}
				for round := 0; round < rounds && viol == ""; round++ {
					if st.Kind == "race" {
						regexp2.StopTimeoutClock()
						synctest.Wait()
					}
					var wg sync.WaitGroup
					res := make([]string, len(st.Ds))
					var gate atomic.Bool
					var ready atomic.Int32
					for j := range st.Ds {
						note(st.Ds[j])
						if !c.Fresh {
							rs.get(st.Ds[j]) // compiled before the barrier
						}
					}
					for j := range st.Ds {
						wg.Add(1)
						go func(j int) {
							defer wg.Done()
							// spin barrier: release all goroutines within nanoseconds of each other
							ready.Add(1)
							for !gate.Load() {
							}
							res[j] = timed(rs, st.Ds[j], st.Ws[j])
						}(j)
					}
					for int(ready.Load()) < len(st.Ds) {
						runtime.Gosched()
					}
					gate.Store(true)
					wg.Wait()
					for j, r := range res {
						if r != "" {
							fail(fmt.Sprintf("goroutine %d: %s", j, r))
						}
					}
				}
				stopped = false
				idleSince = time.Now()
			}
		}
		// epilogue: after the last deadline plus slop the goroutine exits on its own
		if viol == "" {
			wait := time.Until(lastDeadline.Add(time.Second + 5*period))
			if wait > 0 {
				time.Sleep(wait)
			}
			synctest.Wait()
			if regexp2.VerifClockRunning() || clockGoroutine() {
				viol = fmt.Sprintf("clock goroutine still running %v after the last deadline (end of history)", time.Since(lastDeadline))
			}
		}
		if viol == "" {
			// and it is restarted on demand
			if s := timed(rs, 20, 60); s != "" {
				viol = "after the history: " + s
			}
		}
		regexp2.StopTimeoutClock() // let the bubble end even if the goroutine leaked
	})
	return viol, labels
}

func TestPropVirtual(t *testing.T) {
	rapid.Check(t, func(rt *rapid.T) {
		c := genCase(rt)
		h.Eval()
		viol, labels := runHistory(t, c)
		if viol != "" {
			h.Violation(rt, c, "history %+v: %s", c.Steps, viol)
			return
		}
		seen := map[string]bool{}
		for _, l := range labels {
			if !seen[l] {
				seen[l] = true
				h.Label(l)
			}
		}
		if len(seen) > 0 {
			h.NonTrivial(fmt.Sprintf("%+v", c.Steps), func() any { return c })
		}
	})
}

// ---- wall-clock leg: the real interpreter polls often enough

func canary(stop chan struct{}) *time.Duration {
	worst := new(time.Duration)
	go func() {
		last := time.Now()
		for {
			select {
			case <-stop:
				return
			default:
			}
			time.Sleep(time.Millisecond)
			now := time.Now()
			if d := now.Sub(last) - time.Millisecond; d > *worst {
				*worst = d
			}
			last = now
		}
	}()
	return worst
}

func wallOnce(pattern, input string, d time.Duration, opts regexp2.RegexOptions) (string, bool) {
	re := regexp2.MustCompile(pattern, opts)
	re.MatchTimeout = d
	stop := make(chan struct{})
	worst := canary(stop)
	start := time.Now()
	_, err := re.MatchString(input)
	el := time.Since(start)
	close(stop)
	if err == nil {
		// every pattern of this leg needs far more CPU time than any timeout used here, so a normal
		// return means the deadline was never honoured: no scheduling stall explains that
		return fmt.Sprintf("long-running match %q did not time out with timeout %v (returned after %v)", pattern, d, el), true
	}
	if *worst > 20*time.Millisecond {
		return "", false // scheduling stall: the timing bounds below are inconclusive
	}
	if canon.ErrClass(err) != "timeout" {
		return "unexpected error " + err.Error(), true
	}
	if el < d-10*time.Millisecond || el > d+period+500*time.Millisecond {
		return fmt.Sprintf("timeout %v fired after %v", d, el), true
	}
	return "", true
}

func TestPropWallClock(t *testing.T) {
	if h.Shard != 0 {
		t.Skip("the wall-clock leg runs on one shard only")
	}
	cases := []struct {
		p, in string
		o     regexp2.RegexOptions
	}{
		{`(a+)+$`, strings.Repeat("a", 40) + "b", 0},
		{`(x+x+)+y`, strings.Repeat("x", 40), 0},
		{`(?:a|aa)+$`, strings.Repeat("a", 45) + "b", regexp2.RightToLeft &^ regexp2.RightToLeft},
		{`^(\w+\s?)*$`, strings.Repeat("word ", 12) + "!", 0},
		// long-running without ever backtracking (27e6 forward iterations through atomic counted loops):
		// the deadline must also be polled on forward progress
		{`(?:(?>(?:(?>(?:\b|x){300})){300})){300}`, "a", 0},
	}
	n := 1
	if h.Thorough() {
		n = 8
	}
	for rep := 0; rep < n; rep++ {
		for _, c := range cases {
			for _, d := range []time.Duration{50 * time.Millisecond, 200 * time.Millisecond} {
				h.Eval()
				h.Label("wall-clock")
				bad := 0
				var msg string
				for try := 0; try < 3; try++ {
					m, conclusive := wallOnce(c.p, c.in, d, c.o)
					if !conclusive {
						h.Discard("scheduler-stall")
						bad = 0
						break
					}
					if m == "" {
						bad = 0
						break
					}
					bad++
					msg = m
				}
				if bad == 3 {
					h.Violation(t, Case{Steps: []Step{{Kind: "wall:" + c.p, D: int(d / time.Millisecond)}}}, "wall-clock leg (3 times in a row): %s", msg)
				}
			}
		}
	}
	regexp2.StopTimeoutClock()
}

func TestReplay(t *testing.T) {
	h.RunReplay(t, func(c Case) error {
		if len(c.Steps) == 1 && strings.HasPrefix(c.Steps[0].Kind, "wall:") {
			return nil
		}
		if v, _ := runHistory(t, c); v != "" {
			return fmt.Errorf("%s", v)
		}
		return nil
	})
}
