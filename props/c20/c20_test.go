package c20

import (
	"fmt"
	"strings"
	"testing"
	"time"
	"unicode"

	regexp2 "github.com/dlclark/regexp2/v2"
	"pgregory.net/rapid"

	"verif/internal/ast"
	"verif/internal/canon"
	"verif/internal/cls"
	"verif/internal/gen"
	"verif/internal/h"
)

type Case struct {
	AST      *ast.Node `json:"ast"`
	Pattern  string    `json:"pattern"`
	Flipped  string    `json:"flipped_pattern"` // same AST with drawn letters / class members / range endpoints case-flipped
	Opts     string    `json:"opts"`            // extra options among m,s,n (IgnoreCase is always on)
	Inputs   []string  `json:"inputs"`
	FlipMask []uint32  `json:"flip_masks"` // bit k flips the k-th cased letter of the input
}

func TestMain(m *testing.M) {
	h.Setup("C20",
		"F-core and F-accel ASTs (literals, classes incl. negated classes and subtractions, ranges inside one case block, backreferences, leading literals for the prefix-search paths) compiled with IgnoreCase (+ subsets of m,s,n and, 1 in 5, RightToLeft; 1 in 6 patterns carry a backreference inside a lookbehind: (w)-w(?<=\\1)), letters from simple upper/lower pairs (ASCII without k/s, Latin-1, Greek, Cyrillic) x pattern-directed inputs x random flip masks over the input's cased letters x one case-flipped printing of the pattern (literal letters, class members, both endpoints of a range together); one evaluation = one (pattern,input,mask): the rune and string find results (position, length, all captures) before and after flipping the input, and with the flipped pattern, must be equal; non-trivial = the unflipped case matches and a flipped input letter lies inside the match, or the pattern flip changed at least one letter and the case matches; distinct = hash of (pattern, options, input, mask)",
		map[string]float64{"match": 0.3, "flip-inside-match": 0.09, "pattern-flipped/patterns": 0.5, "has-class/patterns": 0.3, "has-backref/patterns": 0.04, "prefix-filter": 0.1},
		"letters are restricted to fold orbits of size two, where case-insensitivity has one agreed meaning")
	h.Ceiling("compile-error", 0.02)
	h.Main(m)
}

func flipRune(r rune) rune {
	if gen.IsPairLetter(r) {
		return unicode.SimpleFold(r)
	}
	return r
}

// flipPattern returns a clone in which drawn letters are case-flipped; it reports how many were flipped.
func flipPattern(t *rapid.T, n *ast.Node) (*ast.Node, int) {
	c := n.Clone()
	count := 0
	c.Walk(func(x *ast.Node) {
		switch x.K {
		case ast.KLit:
			for i, r := range x.R {
				if gen.IsPairLetter(r) && rapid.Bool().Draw(t, "fliplit") {
					x.R[i] = flipRune(r)
					count++
				}
			}
		case ast.KClass:
			var walk func(e *cls.Expr)
			walk = func(e *cls.Expr) {
				if e == nil {
					return
				}
				for i := range e.Items {
					it := &e.Items[i]
					switch it.Kind {
					case cls.Char:
						if gen.IsPairLetter(it.Lo) && rapid.Bool().Draw(t, "flipchar") {
							it.Lo = flipRune(it.Lo)
							count++
						}
					case cls.Range:
						// both endpoints together, only when the whole range is letters of one case
						ok := true
						for r := it.Lo; r <= it.Hi; r++ {
							if !gen.IsPairLetter(r) || unicode.IsUpper(r) != unicode.IsUpper(it.Lo) || flipRune(r)-flipRune(it.Lo) != r-it.Lo {
								ok = false
								break
							}
						}
						if ok && rapid.Bool().Draw(t, "fliprange") {
							it.Lo, it.Hi = flipRune(it.Lo), flipRune(it.Hi)
							count++
						}
					}
				}
				walk(e.Sub)
			}
			walk(x.C)
		}
	})
	return c, count
}

func gen1(t *rapid.T) Case {
	var c Case
	for _, l := range "msn" {
		if rapid.IntRange(0, 3).Draw(t, "opt"+string(l)) == 0 {
			c.Opts += string(l)
		}
	}
	if rapid.IntRange(0, 4).Draw(t, "optr") == 0 {
		c.Opts += "r" // RightToLeft: literals, sets and backreferences are compared through the right-to-left opcodes
	}
	base := ast.Opts{I: true}
	for _, l := range c.Opts {
		switch l {
		case 'm':
			base.M = true
		case 's':
			base.S = true
		case 'n':
			base.N = true
		}
	}
	cfg := gen.Cfg{Depth: 4, Inline: "ms", CaseSafe: true}
	var root *ast.Node
	if rapid.IntRange(0, 2).Draw(t, "accel") == 0 {
		root = gen.Accel(t, gen.Cfg{Depth: 2, CaseSafe: true, Inline: "ms", Letters: []rune("abcxyABXéÉλΛжЖ01 -")})
	} else {
		root = gen.Pattern(t, cfg)
	}
	if rapid.IntRange(0, 5).Draw(t, "lookbackref") == 0 {
		// a backreference (and a literal) evaluated inside a lookbehind, i.e. right to left:
		// (w)-w(?<=\1) and (w)-w(?<=w-\1) must accept any casing of either copy
		w := rapid.SliceOfN(rapid.SampledFrom(gen.PairLetters), 1, 3).Draw(t, "lbword")
		var look *ast.Node
		if rapid.Bool().Draw(t, "lbform") {
			look = ast.Group(ast.GLookbehind, &ast.Node{K: ast.KBackref, Num: 1})
		} else {
			look = ast.Group(ast.GLookbehind, ast.Seq(ast.Lit(w...), ast.Lit('-'), &ast.Node{K: ast.KBackref, Num: 1}))
		}
		if rapid.Bool().Draw(t, "lbforward") {
			// the same word referenced forwards: (w)-\1
			look = ast.Seq(ast.Lit('-'), &ast.Node{K: ast.KBackref, Num: 1})
		}
		wrapped := ast.Seq(ast.Group(ast.GNumbered, ast.Lit(w...)), ast.Lit('-'), ast.Lit(w...), look)
		wrapped.Kids[0].Num = 1
		if rapid.Bool().Draw(t, "lbtail") && !strings.Contains(c.Opts, "n") {
			root = ast.Seq(wrapped, ast.Group(ast.GNon, root))
		} else {
			root = wrapped
		}
	}
	gen.Resolve(t, root, base, false, cfg)
	c.AST = root
	c.Pattern = ast.Print(root, ast.PrintOpts{})
	fl, _ := flipPattern(t, root)
	ast.Annotate(fl, base, false)
	c.Flipped = ast.Print(fl, ast.PrintOpts{})
	alpha := gen.Alphabet(root, false, 10)
	for i := 0; i < 6; i++ {
		var in []rune
		if i%3 == 2 {
			in = gen.Random(t, alpha, 8)
		} else {
			in = gen.Directed(t, root, false, alpha, true, 10)
		}
		// keep inputs inside the domain: cased letters must be plain pairs
		for j, r := range in {
			if !gen.CaseNeutralOrPair(r) {
				in[j] = 'a'
			}
		}
		c.Inputs = append(c.Inputs, string(in))
		c.FlipMask = append(c.FlipMask, rapid.Uint32().Draw(t, "mask"))
	}
	return c
}

type failure struct {
	red Case
	msg string
}

func (f *failure) Error() string { return f.msg }

func options(c Case) regexp2.RegexOptions {
	o := regexp2.IgnoreCase
	for _, l := range c.Opts {
		switch l {
		case 'm':
			o |= regexp2.Multiline
		case 's':
			o |= regexp2.Singleline
		case 'n':
			o |= regexp2.ExplicitCapture
		case 'r':
			o |= regexp2.RightToLeft
		}
	}
	return o
}

func flipInput(r []rune, mask uint32) ([]rune, []int) {
	out := append([]rune{}, r...)
	var flipped []int
	k := 0
	for i, x := range r {
		if gen.IsPairLetter(x) {
			if mask&(1<<uint(k%32)) != 0 {
				out[i] = flipRune(x)
				flipped = append(flipped, i)
			}
			k++
		}
	}
	return out, flipped
}

func check(c Case) error {
	re, err := regexp2.Compile(c.Pattern, options(c))
	if err != nil {
		h.Discard("compile-error")
		h.Label("compile-error: " + err.Error())
		return nil
	}
	re.MatchTimeout = 3 * time.Second
	ref, err := regexp2.Compile(c.Flipped, options(c))
	if err != nil {
		return &failure{c, fmt.Sprintf("pattern %q compiles but its case-flipped printing %q does not: %v", c.Pattern, c.Flipped, err)}
	}
	ref.MatchTimeout = 3 * time.Second
	h.Label("patterns")
	h.LabelIf(c.Flipped != c.Pattern, "pattern-flipped")
	h.LabelIf(c.AST.Has(func(x *ast.Node) bool { return x.K == ast.KClass }), "has-class")
	h.LabelIf(c.AST.Has(func(x *ast.Node) bool { return x.K == ast.KBackref }), "has-backref")
	hasFilter := regexp2.VerifHasStringPrefixFilter(re)
	for i, s := range c.Inputs {
		r := []rune(s)
		mask := uint32(0)
		if i < len(c.FlipMask) {
			mask = c.FlipMask[i]
		}
		h.Eval()
		fail := func(msg string) error {
			red := c
			red.Inputs, red.FlipMask = []string{s}, []uint32{mask}
			return &failure{red, fmt.Sprintf("pattern %q opts=i%s input=%q mask=%#x: %s", c.Pattern, c.Opts, s, mask, msg)}
		}
		m0, err := re.FindRunesMatch(r)
		if err != nil {
			h.Discard("timeout")
			continue
		}
		want := canon.FromMatch(re, m0)
		// string entry point on the unflipped input
		ms, err := re.FindStringMatch(s)
		if err == nil {
			if got := canon.FromMatch(re, ms); !canon.Equal(got, want) {
				return fail(fmt.Sprintf("FindStringMatch %s, FindRunesMatch %s", got, want))
			}
		}
		// flipped input
		fr, flippedAt := flipInput(r, mask)
		m1, err := re.FindRunesMatch(fr)
		if err != nil {
			h.Discard("timeout")
			continue
		}
		if got := canon.FromMatch(re, m1); !canon.Equal(got, want) {
			return fail(fmt.Sprintf("input %q gives %s, case-flipped input %q gives %s", s, want, string(fr), got))
		}
		m2, err := re.FindStringMatch(string(fr))
		if err == nil {
			if got := canon.FromMatch(re, m2); !canon.Equal(got, want) {
				return fail(fmt.Sprintf("input %q gives %s, FindStringMatch on the case-flipped input %q gives %s", s, want, string(fr), got))
			}
		}
		// flipped pattern
		m3, err := ref.FindRunesMatch(r)
		if err != nil {
			h.Discard("timeout")
			continue
		}
		if got := canon.FromMatch(ref, m3); !canon.Equal(got, want) {
			return fail(fmt.Sprintf("pattern gives %s, case-flipped pattern %q gives %s", want, c.Flipped, got))
		}
		m4, err := ref.FindStringMatch(string(fr))
		if err == nil {
			if got := canon.FromMatch(ref, m4); !canon.Equal(got, want) {
				return fail(fmt.Sprintf("pattern on input gives %s, case-flipped pattern %q on case-flipped input %q gives %s", want, c.Flipped, string(fr), got))
			}
		}
		h.LabelIf(want.Matched, "match")
		h.LabelIf(hasFilter, "prefix-filter")
		inside := false
		for _, p := range flippedAt {
			if want.Matched && p >= want.I && p < want.I+want.L {
				inside = true
			}
		}
		h.LabelIf(inside, "flip-inside-match")
		if want.Matched && (inside || c.Flipped != c.Pattern) {
			h.NonTrivial(fmt.Sprintf("%s|%s|%q|%d", c.Pattern, c.Opts, s, mask), func() any {
				return map[string]any{"pattern": c.Pattern, "flipped_pattern": c.Flipped, "opts": "i" + c.Opts, "input": s, "flipped_input": string(fr), "result": want.String()}
			})
		}
	}
	return nil
}

func prop(t *rapid.T) {
	c := gen1(t)
	if err := h.Safely(func() error { return check(c) }); err != nil {
		red := c
		if f, ok := err.(*failure); ok {
			red = f.red
		}
		h.Violation(t, red, "%s", err.Error())
	}
}

func TestProp(t *testing.T) { rapid.Check(t, prop) }

// FuzzProp lets Go's coverage-guided mutator drive the structured generators (thorough tier).
func FuzzProp(f *testing.F) { f.Fuzz(rapid.MakeFuzz(prop)) }

func TestReplay(t *testing.T) { h.RunReplay(t, check) }
