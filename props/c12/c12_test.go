package c12

import (
	"fmt"
	"strings"
	"testing"
	"time"

	regexp2 "github.com/dlclark/regexp2/v2"
	"pgregory.net/rapid"

	"verif/internal/calls"
	"verif/internal/h"
)

// Case is a call history over shared Regexps (Specs index into calls.Pool).
type Case struct {
	Specs []int        `json:"specs"`
	Steps []calls.Call `json:"steps"`
}

func TestMain(m *testing.M) {
	h.Setup("C12",
		"rapid state machine: 4 shared Regexps drawn from a pool of 11 (stack limit 65 - not reachable by doubling -, balancing groups, bool-only eligible program, backreference, stack limit 64, 30 ms timeout on a catastrophic pattern, RightToLeft, replacement cache of 2 entries, IgnoreCase lookbehind, Multiline) and histories of about 30 actions (rapid's default step count; a probe action issues one call per shared Regexp; one burst action per history issues Replace with more distinct replacements than the cache holds and then the latest ones again) over 13 entry points with inputs that match, fail, hit the stack limit or time out, sized 0-60 runes or padded across the pooled-buffer classes (about 1K / 4K / 16K runes), and replacements from a set of 18; after every action the result (canonical match / output / error class) must equal the same call on a Regexp compiled fresh for that call, and a fixed probe call on every shared Regexp is re-checked every few steps; one evaluation = one call in a history; non-trivial = a call on a Regexp whose earlier history contains a dirtying predecessor (bool call on the bool-only pattern, balancing match, error return, or a larger pooled input before a smaller one); distinct = hash of (history prefix)",
		map[string]float64{"after-dirtying": 0.4, "error-return": 0.01, "large-input": 0.05, "replacement": 0.03},
		"a disagreement that involves a timeout is re-decided with both timeouts stretched x1, x4, x16 and reported only if it persists at every scale (work close to the timeout is a coin flip on either side)")
	h.Main(m)
}

var targeted = map[string][]string{
	"stack64":       {"ababababababababababababababababababababababababababababc", "abababababababababababababababababababababababababababababab"},
	"timeout":       {"aaaaaaaaaaaaaaaaaaaaaaaaaaaaaaaaaaaaaab", "aaa"},
	"balancing":     {"(()())", "(()", "())(", "((((((((((((((((((((((((((((((((((((((((x))))))))))))))))))))))))))))))))))))))))"},
	"backref":       {"ab ab", "hello hello world"},
	"quickcode":     {"ac", "abc", "1x"},
	"cache2":        {"a1 b2 c3 d4"},
	"lookbehind100": {"!" + strings.Repeat("ab", 400), "!" + strings.Repeat("ab", 60), "ab", "ab", "zab", "!ab"},
	"stack65":       {"ababababababababababababc", "abababababababababababababc", "abababababababababababababc", "ababababababababababababababc", "ababababababababababababababababababababababababababababababababababababababababc"},
	"rtl":           {"12a 345b"},
}

func genCall(t *rapid.T, specs []int) calls.Call {
	c := calls.Call{
		Re:   rapid.IntRange(0, 3).Draw(t, "re"),
		Kind: rapid.SampledFrom(append(append([]string{}, calls.Kinds...), "Replace", "Replace", "MatchString")).Draw(t, "kind"),
		Core: rapid.SampledFrom(calls.Cores).Draw(t, "core"),
		Rep:  rapid.IntRange(0, len(calls.Replacements)-1).Draw(t, "rep"),
		N:    rapid.IntRange(0, 40).Draw(t, "n"),
	}
	if tg := targeted[calls.Pool[specs[c.Re]].Name]; tg != nil && rapid.Bool().Draw(t, "targeted") {
		c.Core = rapid.SampledFrom(tg).Draw(t, "tcore")
	}
	if rapid.IntRange(0, 2).Draw(t, "big") == 0 {
		c.Class = rapid.IntRange(1, 3).Draw(t, "class")
		c.Pad = rapid.IntRange(0, 200).Draw(t, "pad")
		c.Tail = rapid.Bool().Draw(t, "tail")
	}
	return c
}

// sameOutcome compares with confirmation for scheduling-sensitive outcomes.
func sameOutcome(shared *regexp2.Regexp, spec calls.ReSpec, c calls.Call) (bool, string, string) {
	var got, want string
	// A call whose work is close to the timeout is a coin flip on either Regexp. Such a
	// disagreement is re-decided with the timeout of both sides stretched (x1, x4, x16): work
	// that is borderline at one scale is decisive at the others, while a history-dependent
	// timeout (or a lost one) disagrees at every scale.
	defer func(d time.Duration) { shared.MatchTimeout = d }(shared.MatchTimeout)
	for _, scale := range []time.Duration{1, 1, 4, 16} {
		fresh := spec.Compile()
		if spec.TimeoutMs > 0 {
			shared.MatchTimeout = time.Duration(spec.TimeoutMs) * time.Millisecond * scale
			fresh.MatchTimeout = shared.MatchTimeout
		}
		got = calls.Exec(shared, c)
		want = calls.Exec(fresh, c)
		if got == want {
			return true, got, want
		}
		if !calls.IsTimeoutish(got) && !calls.IsTimeoutish(want) {
			return false, got, want
		}
	}
	return false, got, want
}

var probe = calls.Call{Kind: "FindStringMatch", Core: "abc (()) hello hello 12a a1 baaé\nword"}

// runHistory replays steps on fresh shared Regexps; it returns the first divergence.
func runHistory(c Case, upTo int) error {
	shared := make([]*regexp2.Regexp, len(c.Specs))
	for i, s := range c.Specs {
		shared[i] = calls.Pool[s].Compile()
	}
	for i, st := range c.Steps {
		if upTo >= 0 && i > upTo {
			break
		}
		spec := calls.Pool[c.Specs[st.Re%len(c.Specs)]]
		if ok, got, want := sameOutcome(shared[st.Re%len(shared)], spec, st); !ok {
			return fmt.Errorf("step %d: %s on %s (%q), input class %d core %q: shared Regexp gives %.300s, a fresh Regexp gives %.300s", i, st.Kind, spec.Name, spec.Pattern, st.Class, st.Core, got, want)
		}
	}
	return nil
}

func TestProp(t *testing.T) {
	rapid.Check(t, func(t *rapid.T) {
		var c Case
		perm := rapid.Permutation([]int{0, 1, 2, 3, 4, 5, 6, 7, 8, 9, 10}).Draw(t, "specs")
		c.Specs = perm[:4]
		shared := make([]*regexp2.Regexp, 4)
		for i, s := range c.Specs {
			shared[i] = calls.Pool[s].Compile()
		}
		dirty := make([]bool, 4)
		maxClass := make([]int, 4)
		steps := 0
		check := func(st calls.Call, record bool) {
			spec := calls.Pool[c.Specs[st.Re]]
			h.Eval()
			ok, got, _ := sameOutcome(shared[st.Re], spec, st)
			if record {
				c.Steps = append(c.Steps, st)
			}
			if !ok {
				full := c
				if !record {
					full.Steps = append(append([]calls.Call{}, c.Steps...), st)
				}
				err := runHistory(full, -1)
				msg := "divergence did not reproduce on replay"
				if err != nil {
					msg = err.Error()
				}
				h.Violation(t, full, "history of %d calls on %v: %s", len(full.Steps), c.Specs, msg)
			}
			// labels
			isErr := len(got) >= 5 && (contains(got, "error:") || contains(got, "PANIC"))
			h.LabelIf(isErr, "error-return")
			h.LabelIf(st.Class > 0, "large-input")
			h.LabelIf(st.Kind == "Replace", "replacement")
			if dirty[st.Re] {
				h.Label("after-dirtying")
				h.NonTrivial(fmt.Sprintf("%v|%d|%+v", c.Specs, len(c.Steps), st), func() any {
					return map[string]any{"regexp": spec.Name, "pattern": spec.Pattern, "call": st, "history_length": len(c.Steps), "outcome": trunc(got)}
				})
			}
			if isErr || spec.Name == "balancing" || (spec.Name == "quickcode" && (st.Kind == "MatchString" || st.Kind == "MatchRunes" || st.Kind == "FindAllStringIndex")) || st.Class < maxClass[st.Re] {
				dirty[st.Re] = true
			}
			if st.Class > maxClass[st.Re] {
				maxClass[st.Re] = st.Class
			}
		}
		call := func(t *rapid.T) {
			steps++
			check(genCall(t, c.Specs), true)
		}
		// a burst of Replace calls with more distinct replacement strings than the Regexp's parsed-
		// replacement cache holds (2 for the cache2 spec, 16 by default), then the most recent ones again:
		// an entry that was inserted by evicting another one must still expand as its own text says
		bursts := 0
		burst := func(t *rapid.T) {
			if bursts > 0 {
				t.Skip("one burst per history")
			}
			bursts++
			steps++
			re := rapid.IntRange(0, 3).Draw(t, "burstre")
			n := len(calls.Replacements)
			if calls.Pool[c.Specs[re]].Name == "cache2" && rapid.Bool().Draw(t, "burstshort") {
				n = rapid.IntRange(3, 6).Draw(t, "burstn")
			}
			start := rapid.IntRange(0, len(calls.Replacements)-1).Draw(t, "burststart")
			core := rapid.SampledFrom(calls.Cores).Draw(t, "burstcore")
			if name := calls.Pool[c.Specs[re]].Name; name != "timeout" && name != "stack64" {
				if tg := targeted[name]; tg != nil {
					core = rapid.SampledFrom(tg).Draw(t, "bursttcore")
				}
			} else {
				core = "aaa"
			}
			var order []int
			for i := 0; i < n; i++ {
				order = append(order, (start+i)%len(calls.Replacements))
			}
			again := rapid.IntRange(1, 3).Draw(t, "burstagain")
			for i := 0; i < again && i < n; i++ {
				order = append(order, order[n-1-i])
			}
			for _, rep := range order {
				check(calls.Call{Re: re, Kind: "Replace", Core: core, Rep: rep}, true)
			}
		}
		t.Repeat(map[string]func(*rapid.T){
			"burst": burst,
			"call":  call, "call2": call, "call3": call, "call4": call, "call5": call, "call6": call,
			"probe": func(t *rapid.T) {
				steps++
				for i := range shared {
					p := probe
					p.Re = i
					check(p, true)
				}
			},
		})
	})
}

func contains(s, sub string) bool {
	for i := 0; i+len(sub) <= len(s); i++ {
		if s[i:i+len(sub)] == sub {
			return true
		}
	}
	return false
}

func trunc(s string) string {
	if len(s) > 120 {
		return s[:120] + "..."
	}
	return s
}

func TestReplay(t *testing.T) {
	h.RunReplay(t, func(c Case) error { return runHistory(c, -1) })
}
