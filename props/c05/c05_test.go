package c05

import (
	"fmt"
	"strings"
	"testing"
	"time"

	regexp2 "github.com/dlclark/regexp2/v2"
	"github.com/dlclark/regexp2/v2/syntax"
	"pgregory.net/rapid"

	"verif/internal/ast"
	"verif/internal/canon"
	"verif/internal/eng"
	"verif/internal/gen"
	"verif/internal/h"
	"verif/internal/known"
)

type Case struct {
	Spec   eng.Spec  `json:"spec"`
	AST    *ast.Node `json:"ast,omitempty"`
	Inputs [][]byte  `json:"inputs"`
	At     int       `json:"at,omitempty"`
	OneOff bool      `json:"one_offset,omitempty"`
}

func TestMain(m *testing.M) {
	h.Setup("C05",
		"rewrite-shaped ASTs (loop followed by X with disjoint/overlapping/nullable X, lazy loops, alternations with shared literal/set prefixes, atomic alternations with >=3 literal branches and empty branches, nested atomics, loops ending lookarounds / conditional tests / group loops, leading unbounded loops, captures around all of these) and corpus patterns x options (incl. IgnoreCase, Multiline, Singleline, RightToLeft) x pattern-directed near-match inputs x every start offset; one evaluation = one (pattern,input,offset) where the naive scan of the normally compiled program, the naive scan of the program compiled with the rewrites gated off, and the public FindRunesMatchStartingAt are compared; non-trivial = the two compiled programs differ (a rewrite fired) and the un-rewritten program matches the input at this offset; distinct = hash of (pattern, options, input, offset)",
		map[string]float64{"programs-differ/patterns": 0.35, "rw:atomic-loop/patterns": 0.05, "rw:atomic-group/patterns": 0.05, "rw:bumpalong/patterns": 0.05,
			"rw:alternation-restructured/patterns": 0.03, "match": 0.12},
		"the rewrite gates (build tag verif) switch off auto-atomic loops, ending-backtracking elimination, bump-along insertion, atomic-alternation trimming/reordering and alternation prefix extraction; everything else in the reducer stays on in both variants",
		"both variants are run through the naive-scan hook so that acceleration cannot mask or cause a difference")
	h.Ceiling("compile-error", 0.25)
	h.Main(m)
}

func gen1(t *rapid.T) Case {
	cfg := gen.Cfg{Depth: 3, Full: true, Inline: "ims", Magic: true}
	var c Case
	if rapid.IntRange(0, 6).Draw(t, "fullspec") == 0 {
		spec, root, _ := gen.FullSpec(t, cfg, true, false, true)
		c.Spec, c.AST = spec, root
	} else {
		o, base := gen.FullOpts(t, true, false, true)
		o &^= regexp2.IgnorePatternWhitespace
		base.X = false
		c.Spec = eng.Spec{Options: int32(o)}
		root := gen.Rewrite(t, cfg)
		gen.Resolve(t, root, base, false, cfg)
		c.Spec.Pattern = ast.Print(root, ast.PrintOpts{})
		c.AST = root
	}
	var alpha []rune
	if c.AST != nil {
		alpha = gen.Alphabet(c.AST, regexp2.RegexOptions(c.Spec.Options)&regexp2.RE2 != 0, 10)
	} else {
		alpha = []rune("abc1 \n")
	}
	for i := 0; i < 8; i++ {
		var in []rune
		if c.AST != nil && i%4 != 3 {
			in = gen.Directed(t, c.AST, false, alpha, false, 80)
		} else {
			in = gen.Random(t, alpha, 10)
		}
		c.Inputs = append(c.Inputs, []byte(string(in)))
	}
	return c
}

type failure struct {
	red Case
	msg string
}

func (f *failure) Error() string { return f.msg }

func compileBoth(spec eng.Spec) (on, off *regexp2.Regexp, errOn, errOff error) {
	syntax.VerifSetRewrites(true)
	on, errOn = spec.Compile()
	syntax.VerifSetRewrites(false)
	off, errOff = spec.Compile()
	syntax.VerifSetRewrites(true)
	return
}

func check(c Case) error {
	defer syntax.VerifSetRewrites(true)
	on, off, errOn, errOff := compileBoth(c.Spec)
	if (errOn == nil) != (errOff == nil) {
		return &failure{c, fmt.Sprintf("pattern %q: compile error differs with rewrites off: %v vs %v", c.Spec.Pattern, errOn, errOff)}
	}
	if errOn != nil {
		h.Discard("compile-error")
		return nil
	}
	h.Label("patterns")
	dOn, dOff := regexp2.VerifCode(on).Dump(), regexp2.VerifCode(off).Dump()
	differ := dOn != dOff
	if differ {
		h.Label("programs-differ")
		cnt := func(s, sub string) int { return strings.Count(s, sub) }
		h.LabelIf(cnt(dOn, "loopatomic") > cnt(dOff, "loopatomic"), "rw:atomic-loop")
		h.LabelIf(cnt(dOn, "Setjump") > cnt(dOff, "Setjump"), "rw:atomic-group")
		h.LabelIf(cnt(dOn, "Bumpalong") > 0, "rw:bumpalong")
		h.LabelIf(cnt(dOn, "Lazybranch(") != cnt(dOff, "Lazybranch(") || cnt(dOn, "Multi") != cnt(dOff, "Multi"), "rw:alternation-restructured")
	}
	over := h.Budget(2 * time.Second)
	for _, in := range c.Inputs {
		r := canon.Decode(string(in))
		lo, hi := 0, len(r)
		if c.OneOff {
			lo, hi = c.At, c.At
		}
		for at := lo; at <= hi; at++ {
			if over() {
				h.Discard("slow-case")
				return nil
			}
			h.Eval()
			fail := func(msg string) error {
				red := c
				red.Inputs = [][]byte{in}
				red.At, red.OneOff = at, true
				return &failure{red, fmt.Sprintf("pattern %q opts=%s input=%q startAt=%d: %s", c.Spec.Pattern, eng.OptString(c.Spec.Options), string(in), at, msg)}
			}
			mOff, err := regexp2.VerifNaiveFind(off, r, at, at)
			if err != nil {
				h.Discard("off-" + canon.ErrClass(err))
				return nil // catastrophic without the rewrites: abandon the case
			}
			want := canon.FromMatch(off, mOff)
			mOn, err := regexp2.VerifNaiveFind(on, r, at, at)
			if err != nil {
				if canon.ErrClass(err) == "timeout" {
					h.Discard("on-timeout")
					return nil
				}
				return fail("rewritten program: " + err.Error())
			}
			if got := canon.FromMatch(on, mOn); !canon.Equal(got, want) {
				if known.NonboundaryAtomic("c05-auto-atomic-nonboundary", func() bool {
					on2, err := c.Spec.Compile()
					if err != nil {
						return false
					}
					m2, err := regexp2.VerifNaiveFind(on2, r, at, at)
					return err == nil && canon.Equal(canon.FromMatch(on2, m2), want)
				}) {
					continue
				}
				return fail(fmt.Sprintf("naive scan with rewrites on %s, with rewrites off %s", got, want))
			}
			pm, err := on.FindRunesMatchStartingAt(r, at)
			if err != nil {
				if canon.ErrClass(err) == "timeout" {
					h.Discard("on-timeout")
					return nil
				}
				return fail("public find: " + err.Error())
			}
			if got := canon.FromMatch(on, pm); !canon.Equal(got, want) {
				return fail(fmt.Sprintf("public FindRunesMatchStartingAt %s, un-rewritten naive scan %s", got, want))
			}
			h.LabelIf(want.Matched, "match")
			if differ && want.Matched {
				key := fmt.Sprintf("%s|%d|%q|%d", c.Spec.Pattern, c.Spec.Options, string(in), at)
				h.NonTrivial(key, func() any {
					return map[string]any{"pattern": c.Spec.Pattern, "options": eng.OptString(c.Spec.Options), "input": string(in), "start_at": at, "result": want.String()}
				})
			}
		}
		// measured proxy for "backtracking happened": did the un-rewritten program's backtracking stack grow?
		if !c.OneOff {
			if _, err, tc, _ := regexp2.VerifScanStats(off, r, -1); err == nil {
				base := regexp2.VerifCode(off).TrackCount * 8
				if base < 64 {
					base = 64
				}
				h.LabelIf(tc > base, "grew-stack")
			}
		}
	}
	return nil
}

func prop(t *rapid.T) {
	c := gen1(t)
	if err := h.Safely(func() error { return check(c) }); err != nil {
		red := c
		if f, ok := err.(*failure); ok {
			red = f.red
		}
		h.Violation(t, red, "%s", err.Error())
	}
}

func TestProp(t *testing.T) { rapid.Check(t, prop) }

// FuzzProp lets Go's coverage-guided mutator drive the structured generators (thorough tier).
func FuzzProp(f *testing.F) { f.Fuzz(rapid.MakeFuzz(prop)) }

func TestReplay(t *testing.T) { h.RunReplay(t, check) }
