package c19

import (
	"fmt"
	"testing"
	"unicode/utf8"

	regexp2 "github.com/dlclark/regexp2/v2"
	"pgregory.net/rapid"

	"verif/internal/h"
)

type Case struct {
	S    []rune `json:"s"`
	Opts int32  `json:"opts"`
}

var optSet = []regexp2.RegexOptions{regexp2.Multiline, regexp2.Singleline, regexp2.ExplicitCapture, regexp2.IgnorePatternWhitespace, regexp2.RightToLeft, regexp2.RE2, regexp2.ECMAScript}

func TestMain(m *testing.M) {
	h.Setup("C19",
		"strings of 0-12 runes over all of Unicode, weighted towards metacharacters, whitespace, C0/C1 controls, non-printable and unassigned code points below and above U+FFFF and ordinary text x option subsets of {Multiline, Singleline, ExplicitCapture, IgnorePatternWhitespace, RightToLeft, RE2, ECMAScript} (IgnoreCase excluded: it does not keep literal meaning); one evaluation = one (string, options): Unescape(Escape(s)) == s, \\A(?:Escape(s))\\z compiles, matches s and matches none of up to 8 one-edit mutants of s; non-trivial = Escape(s) != s; distinct = hash of (string, options)",
		map[string]float64{"escaped": 0.45, "astral": 0.1, "nonprintable": 0.3, "xmode": 0.1},
		"only valid UTF-8 strings (valid scalar values) are in the domain")
	h.Main(m)
}

var meta = []rune(`\.+*?()|[]{}^$# -`)
var ws = []rune{' ', '\t', '\n', '\r', '\v', '\f', 0x85, 0xA0, 0x2028, 0x3000}

func genRune(t *rapid.T) rune {
	for {
		var r rune
		switch rapid.IntRange(0, 9).Draw(t, "rk") {
		case 0, 1:
			r = rapid.SampledFrom(meta).Draw(t, "meta")
		case 2:
			r = rapid.SampledFrom(ws).Draw(t, "ws")
		case 3:
			r = rune(rapid.IntRange(0, 0x9f).Draw(t, "c0c1"))
		case 4:
			r = rune(rapid.IntRange(0x100, 0xFFF).Draw(t, "low"))
		case 5:
			r = rune(rapid.IntRange(0x1000, 0xFFFF).Draw(t, "bmp"))
		case 6:
			r = rune(rapid.IntRange(0x10000, 0x10FFFF).Draw(t, "astral"))
		case 7:
			r = rapid.SampledFrom([]rune{0x378, 0x379, 0xE0001, 0xFFFE, 0xFFFF, 0x10FFFF, 0xFEFF, 0xAD, 0x200B, 0x2060, 0xD7FF, 0xE000, 0xFFFD, 0x1FFFE}).Draw(t, "special")
		default:
			r = rapid.SampledFrom([]rune("abcXYZ019_é日")).Draw(t, "text")
		}
		if utf8.ValidRune(r) {
			return r
		}
	}
}

func gen1(t *rapid.T) Case {
	n := rapid.IntRange(0, 12).Draw(t, "len")
	c := Case{}
	for i := 0; i < n; i++ {
		c.S = append(c.S, genRune(t))
	}
	for _, o := range optSet {
		if rapid.IntRange(0, 3).Draw(t, "opt") == 0 {
			c.Opts |= int32(o)
		}
	}
	return c
}

func mutants(s []rune) [][]rune {
	var out [][]rune
	add := func(m []rune) {
		if string(m) != string(s) {
			out = append(out, m)
		}
	}
	if len(s) > 0 {
		add(append([]rune{}, s[1:]...))
		add(append([]rune{}, s[:len(s)-1]...))
		m := append([]rune{}, s...)
		m[0] = m[0] + 1
		if utf8.ValidRune(m[0]) {
			add(m)
		}
		m2 := append([]rune{}, s...)
		m2[len(s)-1] = 'q'
		add(m2)
		mid := len(s) / 2
		add(append(append(append([]rune{}, s[:mid]...), 'a'), s[mid:]...))
	}
	add(append([]rune{'a'}, s...))
	add(append(append([]rune{}, s...), '\n'))
	add(append(append([]rune{}, s...), ' '))
	if len(s) > 1 {
		m := append([]rune{}, s...)
		m[0], m[1] = m[1], m[0]
		add(m)
	}
	return out
}

func check(c Case) error {
	for _, r := range c.S {
		if !utf8.ValidRune(r) {
			return nil
		}
	}
	s := string(c.S)
	h.Eval()
	esc := regexp2.Escape(s)
	back, err := regexp2.Unescape(esc)
	if err != nil {
		return fmt.Errorf("s=%q: Unescape(Escape(s)=%q) error: %v", s, esc, err)
	}
	if back != s {
		return fmt.Errorf("s=%q (%U): Escape gives %q, Unescape of that gives %q (%U)", s, c.S, esc, back, []rune(back))
	}
	opts := regexp2.RegexOptions(c.Opts)
	re, err := regexp2.Compile(`\A(?:`+esc+`)\z`, opts)
	if err != nil {
		return fmt.Errorf("s=%q (%U) opts=%#x: Escape(s)=%q does not compile: %v", s, c.S, c.Opts, esc, err)
	}
	ok, err := re.MatchString(s)
	if err != nil || !ok {
		return fmt.Errorf("s=%q (%U) opts=%#x: \\A(?:%s)\\z does not match s (err=%v)", s, c.S, c.Opts, esc, err)
	}
	ok, err = re.MatchRunes(c.S)
	if err != nil || !ok {
		return fmt.Errorf("s=%q (%U) opts=%#x: \\A(?:%s)\\z does not match the runes of s (err=%v)", s, c.S, c.Opts, esc, err)
	}
	for _, m := range mutants(c.S) {
		if ok, _ := re.MatchRunes(m); ok {
			return fmt.Errorf("s=%q (%U) opts=%#x: \\A(?:%s)\\z also matches %q (%U)", s, c.S, c.Opts, esc, string(m), m)
		}
	}
	astral, nonprint := false, false
	for _, r := range c.S {
		if r > 0xFFFF {
			astral = true
		}
		if r < 0x20 || (r >= 0x7f && r < 0xa0) || r == 0x378 || r == 0xE0001 || r == 0xFFFE {
			nonprint = true
		}
	}
	h.LabelIf(astral, "astral")
	h.LabelIf(nonprint, "nonprintable")
	h.LabelIf(opts&regexp2.IgnorePatternWhitespace != 0, "xmode")
	if esc != s {
		h.Label("escaped")
		h.NonTrivial(fmt.Sprintf("%q|%d", s, c.Opts), func() any {
			return map[string]any{"s": s, "escaped": esc, "opts": c.Opts}
		})
	}
	return nil
}

func TestProp(t *testing.T) {
	rapid.Check(t, func(t *rapid.T) {
		c := gen1(t)
		if err := h.Safely(func() error { return check(c) }); err != nil {
			h.Violation(t, c, "%s", err.Error())
		}
	})
}

func TestReplay(t *testing.T) { h.RunReplay(t, check) }

func FuzzEscapeRoundTrip(f *testing.F) {
	for _, s := range []string{"", "a.b", "\\", "# x", "͸", "\U000E0001", "\x00\x7f", "日本", "a b\tc\n", "[](){}", "  "} {
		f.Add(s, uint16(0))
	}
	f.Fuzz(func(t *testing.T, s string, o uint16) {
		if !utf8.ValidString(s) || len(s) > 48 {
			return
		}
		c := Case{S: []rune(s)}
		for i, b := range optSet {
			if o&(1<<uint(i)) != 0 {
				c.Opts |= int32(b)
			}
		}
		if err := h.Safely(func() error { return check(c) }); err != nil {
			h.Violation(t, c, "%s", err.Error())
		}
	})
}
