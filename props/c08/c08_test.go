package c08

import (
	"fmt"
	"reflect"
	"testing"
	"unicode/utf8"

	regexp2 "github.com/dlclark/regexp2/v2"
	"github.com/dlclark/regexp2/v2/compat"
	"pgregory.net/rapid"

	"verif/internal/ast"
	"verif/internal/canon"
	"verif/internal/eng"
	"verif/internal/gen"
	"verif/internal/h"
)

type Case struct {
	Spec   eng.Spec  `json:"spec"`
	AST    *ast.Node `json:"ast,omitempty"`
	Inputs [][]byte  `json:"inputs"`
	Runes  [][]rune  `json:"runes,omitempty"` // rune-slice inputs that may contain invalid runes
}

func TestMain(m *testing.M) {
	h.Setup("C08",
		"F-full ASTs with extra weight on balancing groups, captures inside lookbehind and loops, and corpus patterns x options x byte strings mixing 1-4 byte runes, literal U+FFFD and invalid bytes, plus rune slices containing surrogates / out-of-range runes; one evaluation = one (pattern,input): every match of the string iteration and of the rune iteration is checked with the structural predicate (spans inside the input, group 0 = match, embedded capture = last capture, String/Runes = addressed slice, ByteRange = byte model of the original string) and the three byte mappers (ByteRange, FindAllStringIndex, compat index methods) must agree; non-trivial = a match with >=1 capture of a group other than 0 on an input with a multi-byte or invalid sequence before the end of the match; distinct = hash of (pattern, options, input)",
		map[string]float64{"balancing/patterns": 0.05, "invalid-bytes": 0.20, "four-byte": 0.10, "match": 0.2},
		"the byte model decodes with utf8.DecodeRuneInString: every invalid byte is one rune of one byte",
		"for rune-slice inputs ByteRange is only compared with string(runes) when every rune is a valid scalar value (behaviour for invalid runes is unspecified); it must still not panic")
	h.Ceiling("compile-error", 0.25)
	h.Main(m)
}

func gen1(t *rapid.T) Case {
	cfg := gen.Cfg{Depth: 3, Full: true, Inline: "ims"}
	var c Case
	if rapid.IntRange(0, 3).Draw(t, "balshape") == 0 {
		// classic balancing shape with random fillers
		o, base := gen.FullOpts(t, true, false, false)
		o &^= regexp2.IgnorePatternWhitespace | regexp2.ExplicitCapture
		base.X, base.N = false, false
		open := ast.Group(ast.GNamed, ast.Lit(rapid.SampledFrom([]rune("(<a")).Draw(t, "open")))
		open.S = "o"
		cl := ast.Group(ast.GBalance, ast.Lit(rapid.SampledFrom([]rune(")>b")).Draw(t, "close")))
		cl.S2 = "o"
		if rapid.Bool().Draw(t, "named") {
			cl.S = "c"
		}
		filler := gen.Pattern(t, gen.Cfg{Depth: 1, Inline: ""})
		alts := ast.Alt(open, cl, filler)
		if cl.S != "" && rapid.IntRange(0, 2).Draw(t, "loopref") == 0 {
			// a reference to the transferred capture as one more alternative of the loop
			alts.Kids = append(alts.Kids, &ast.Node{K: ast.KBackref, S: rapid.SampledFrom([]string{"c", "o"}).Draw(t, "looprefname")})
		}
		body := ast.Quant(ast.Group(ast.GNon, alts), 0, -1, rapid.Bool().Draw(t, "lazy"))
		root := ast.Seq(body)
		if rapid.IntRange(0, 2).Draw(t, "balrtl") == 0 {
			o |= regexp2.RightToLeft // captures are cancelled by groups lying to their right
		}
		if rapid.IntRange(0, 2).Draw(t, "balref") == 0 {
			root.Kids = append(root.Kids, ast.Quant(&ast.Node{K: ast.KBackref, S: "o"}, 0, 1, false))
		}
		if rapid.Bool().Draw(t, "cond") {
			root.Kids = append(root.Kids, &ast.Node{K: ast.KCond, S: "o", Kids: []*ast.Node{nil, ast.Group(ast.GNegLookahead, ast.Empty()), ast.Empty()}})
		}
		gen.Resolve(t, root, base, false, cfg)
		c.Spec = eng.Spec{Options: int32(o), Pattern: ast.Print(root, ast.PrintOpts{})}
		c.AST = root
	} else {
		spec, root, base := gen.FullSpec(t, cfg, true, true, true)
		c.Spec, c.AST = spec, root
		if root != nil && !base.X && rapid.Bool().Draw(t, "wrapcap") {
			// make sure captures exist: wrap the pattern in a group and add a captured loop
			root = ast.Seq(ast.Group(ast.GCap, root), ast.Quant(ast.Group(ast.GCap, ast.Dot()), 0, 2, rapid.Bool().Draw(t, "lazy")))
			ast.Annotate(root, base, false)
			c.Spec.Pattern = ast.Print(root, ast.PrintOpts{ECMA: regexp2.RegexOptions(spec.Options)&regexp2.ECMAScript != 0})
			c.AST = root
		}
	}
	if rapid.IntRange(0, 3).Draw(t, "stacklimit") == 0 {
		// a small backtracking stack: some scans are aborted half-way (captures recorded, nothing
		// matched); the matches returned by later calls on the same Regexp must still be well-formed
		l := rapid.SampledFrom([]int{8, 16, 32, 64, 128}).Draw(t, "limit")
		c.Spec.StackLimit = &l
	}
	alpha := []rune("ab()<> \n")
	if c.AST != nil {
		alpha = gen.Alphabet(c.AST, false, 10)
	}
	alpha = append(alpha, 'é', '日', 0x1F600, 0xFFFD)
	for i := 0; i < 5; i++ {
		var in []rune
		if c.AST != nil && i%2 == 0 {
			in = gen.Directed(t, c.AST, false, alpha, false, 12)
		} else {
			in = gen.Random(t, alpha, 10)
		}
		if rapid.Bool().Draw(t, "widehead") {
			in = append([]rune{rapid.SampledFrom([]rune{'é', '日', 0x1F600, 0xFFFD}).Draw(t, "wide")}, in...)
		}
		c.Inputs = append(c.Inputs, []byte(gen.ByteString(t, in, 8)))
	}
	// one rune-slice input with hostile runes
	rr := gen.Random(t, alpha, 8)
	if len(rr) > 0 {
		rr[rapid.IntRange(0, len(rr)-1).Draw(t, "badpos")] = rapid.SampledFrom([]rune{0xD800, 0xDFFF, 0x110000, 0x7FFFFFFF}).Draw(t, "badrune")
	}
	c.Runes = append(c.Runes, rr)
	return c
}

type failure struct {
	red Case
	msg string
}

func (f *failure) Error() string { return f.msg }

func iterate(re *regexp2.Regexp, first *regexp2.Match, err error, limit int) ([]*regexp2.Match, error) {
	var seq []*regexp2.Match
	m := first
	for steps := 0; m != nil && err == nil && steps <= limit; steps++ {
		seq = append(seq, m)
		m, err = re.FindNextMatch(m)
	}
	return seq, err
}

func check(c Case) error {
	re, err := c.Spec.Compile()
	if err != nil {
		h.Discard("compile-error")
		return nil
	}
	h.Label("patterns")
	if c.AST != nil {
		h.LabelIf(c.AST.Has(func(x *ast.Node) bool { return x.K == ast.KGroup && x.G == ast.GBalance }), "balancing")
	}
	cre := compat.Wrap(re)
	for ii, in := range c.Inputs {
		s := string(in)
		r := canon.Decode(s)
		offs := canon.ByteOffsets(s)
		h.Eval()
		fail := func(msg string) error {
			red := c
			red.Inputs, red.Runes = [][]byte{in}, nil
			if c.Spec.StackLimit != nil {
				red.Inputs = c.Inputs[:ii+1] // the earlier (possibly aborted) scans are part of the case
			}
			return &failure{red, fmt.Sprintf("pattern %q opts=%s input=%q: %s", c.Spec.Pattern, eng.OptString(c.Spec.Options), s, msg)}
		}
		ms, e1 := re.FindStringMatch(s)
		seqS, e1 := iterate(re, ms, e1, len(r)+2)
		mr, e2 := re.FindRunesMatch(r)
		seqR, e2 := iterate(re, mr, e2, len(r)+2)
		if e1 != nil || e2 != nil {
			if canon.ErrClass(e1) == "timeout" || canon.ErrClass(e2) == "timeout" {
				h.Discard("timeout")
				return nil
			}
			if c.Spec.StackLimit != nil && (canon.ErrClass(e1) == "stacklimit" || canon.ErrClass(e2) == "stacklimit") {
				// the limit error is a permitted outcome of any call (the string entry point may not even
				// reach the interpreter); what was returned before it must still be well-formed
				h.Label("stack-limit-abort")
				for i, m := range seqS {
					if err := canon.Validate(re, m, r, &s); err != nil {
						return fail(fmt.Sprintf("string iteration match %d (before the stack limit error): %v", i, err))
					}
				}
				for i, m := range seqR {
					if err := canon.Validate(re, m, r, nil); err != nil {
						return fail(fmt.Sprintf("rune iteration match %d (before the stack limit error): %v", i, err))
					}
				}
				continue
			}
			if canon.ErrClass(e1) != canon.ErrClass(e2) {
				return fail(fmt.Sprintf("errors differ: %v vs %v", e1, e2))
			}
			continue
		}
		for i, m := range seqS {
			if err := canon.Validate(re, m, r, &s); err != nil {
				return fail(fmt.Sprintf("string iteration match %d: %v", i, err))
			}
		}
		for i, m := range seqR {
			if err := canon.Validate(re, m, r, nil); err != nil {
				return fail(fmt.Sprintf("rune iteration match %d: %v", i, err))
			}
		}
		// mappers agree
		all, err := re.FindAllStringIndex(s, -1)
		if err != nil && c.Spec.StackLimit != nil && canon.ErrClass(err) == "stacklimit" {
			continue
		}
		if err != nil {
			return fail("FindAllStringIndex: " + err.Error())
		}
		ai := 0
		for i, m := range seqS {
			if i > 0 && m.RuneLength == 0 {
				p := seqS[i-1]
				if m.RuneIndex == p.RuneIndex+p.RuneLength || m.RuneIndex == p.RuneIndex {
					continue
				}
			}
			bi, bl := m.ByteRange()
			if ai >= len(all) || all[ai][0] != bi || all[ai][1] != bi+bl {
				return fail(fmt.Sprintf("FindAllStringIndex = %v; ByteRange of match %d is (%d,%d)", all, i, bi, bl))
			}
			if all[ai][0] != offs[m.RuneIndex] || all[ai][1] != offs[m.RuneIndex+m.RuneLength] {
				return fail(fmt.Sprintf("FindAllStringIndex entry %v is not the byte span of rune span (%d,%d)", all[ai], m.RuneIndex, m.RuneLength))
			}
			ai++
		}
		if ai != len(all) {
			return fail(fmt.Sprintf("FindAllStringIndex has %d entries, iteration keeps %d", len(all), ai))
		}
		if len(seqS) > 0 {
			m := seqS[0]
			var want []int
			for _, g := range m.Groups() {
				if len(g.Captures) == 0 {
					want = append(want, -1, -1)
					continue
				}
				bi, bl := g.ByteRange()
				want = append(want, bi, bi+bl)
			}
			if got := cre.FindStringSubmatchIndex(s); !reflect.DeepEqual(got, want) {
				return fail(fmt.Sprintf("compat.FindStringSubmatchIndex = %v, ByteRange of the groups = %v", got, want))
			}
			if got := cre.FindSubmatchIndex(in); !reflect.DeepEqual(got, want) {
				return fail(fmt.Sprintf("compat.FindSubmatchIndex = %v, ByteRange of the groups = %v", got, want))
			}
		}
		// labels
		invalid := !utf8.ValidString(s)
		four := false
		for _, x := range r {
			if x >= 0x10000 {
				four = true
			}
		}
		h.LabelIf(invalid, "invalid-bytes")
		h.LabelIf(four, "four-byte")
		h.LabelIf(len(seqS) > 0, "match")
		if len(seqS) > 0 {
			m := seqS[0]
			caps := 0
			for i, g := range m.Groups() {
				if i > 0 {
					caps += len(g.Captures)
				}
			}
			wide := false
			for i := 0; i < m.RuneIndex+m.RuneLength && i < len(r); i++ {
				if offs[i+1]-offs[i] != 1 || r[i] == utf8.RuneError {
					wide = true
				}
			}
			if caps > 0 && wide {
				key := fmt.Sprintf("%s|%d|%q", c.Spec.Pattern, c.Spec.Options, s)
				h.NonTrivial(key, func() any {
					return map[string]any{"pattern": c.Spec.Pattern, "options": eng.OptString(c.Spec.Options), "input": s, "first_match": canon.FromMatch(re, m).String()}
				})
			}
		}
	}
	for _, rr := range c.Runes {
		h.Eval()
		m, err := re.FindRunesMatch(rr)
		seq, err := iterate(re, m, err, len(rr)+2)
		if err != nil {
			continue
		}
		for i, m := range seq {
			if err := canon.Validate(re, m, rr, nil); err != nil {
				red := c
				red.Inputs, red.Runes = nil, [][]rune{rr}
				return &failure{red, fmt.Sprintf("pattern %q opts=%s rune input %v: match %d: %v", c.Spec.Pattern, eng.OptString(c.Spec.Options), rr, i, err)}
			}
			for _, g := range m.Groups() {
				g.ByteRange() // must not panic
				for _, cp := range g.Captures {
					cp.ByteRange()
				}
			}
		}
		h.Label("invalid-rune-input")
	}
	return nil
}

func prop(t *rapid.T) {
	c := gen1(t)
	if err := h.Safely(func() error { return check(c) }); err != nil {
		if h.IsTimeoutPanic(err) {
			h.Discard("timeout")
			return
		}
		red := c
		if f, ok := err.(*failure); ok {
			red = f.red
		}
		h.Violation(t, red, "%s", err.Error())
	}
}

func TestProp(t *testing.T) { rapid.Check(t, prop) }

// FuzzProp lets Go's coverage-guided mutator drive the structured generators (thorough tier).
func FuzzProp(f *testing.F) { f.Fuzz(rapid.MakeFuzz(prop)) }

func TestReplay(t *testing.T) { h.RunReplay(t, check) }
