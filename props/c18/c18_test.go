package c18

import (
	"fmt"
	"reflect"
	"strings"
	"testing"
	"time"

	regexp2 "github.com/dlclark/regexp2/v2"
	"pgregory.net/rapid"

	"verif/internal/ast"
	"verif/internal/canon"
	"verif/internal/corpus"
	"verif/internal/gen"
	"verif/internal/h"
)

type Case struct {
	Pattern string    `json:"pattern"`      // option-neutral text (blanks / # escaped; insignificant blanks only if x is in O)
	Switch  string    `json:"switch_style"` // same AST with every scoped (?o:X) printed as (?:(?o)X)
	AST     *ast.Node `json:"ast,omitempty"`
	O       string    `json:"o"` // letters of the option set
	Inputs  []string  `json:"inputs"`
}

func TestMain(m *testing.M) {
	h.Setup("C18",
		"F-core ASTs (with nested inline on/off groups) and corpus patterns x all 32 subsets O of {i,m,s,n,x} x pattern-directed inputs x every start offset; one evaluation = one (pattern,O,input,offset) on which Compile(P,O), Compile((?O)P) and Compile((?O:P)) must give equal matches and captures (FindRunesMatchStartingAt), equal MatchString and FindAllRunesIndex results (the entry points that may run the capture-free program), group numbers and names, and the switch-style printing (?:(?o)X) of every scoped group (?o:X) must agree with the scoped printing; non-trivial = O changes the result of this (input,offset) compared with O = {} (so the agreement is not vacuous); distinct = hash of (pattern, O, input, offset)",
		map[string]float64{"option-matters": 0.05, "match": 0.15, "has-inline/patterns": 0.2, "O-nonempty/patterns": 0.6},
		"IgnorePatternWhitespace only changes how the pattern text is read: the text contains insignificant blanks and comments exactly when x is in O")
	h.Ceiling("compile-error", 0.10)
	h.Main(m)
}

func optsOf(letters string) regexp2.RegexOptions {
	var o regexp2.RegexOptions
	for _, l := range letters {
		switch l {
		case 'i':
			o |= regexp2.IgnoreCase
		case 'm':
			o |= regexp2.Multiline
		case 's':
			o |= regexp2.Singleline
		case 'n':
			o |= regexp2.ExplicitCapture
		case 'x':
			o |= regexp2.IgnorePatternWhitespace
		}
	}
	return o
}

// switchStyle rewrites every scoped option group (?o:X) as (?:(?o)X).
func switchStyle(n *ast.Node) *ast.Node {
	if n == nil {
		return nil
	}
	c := *n
	c.Kids = make([]*ast.Node, len(n.Kids))
	for i, k := range n.Kids {
		c.Kids[i] = switchStyle(k)
	}
	if c.K == ast.KOpt && len(c.Kids) > 0 {
		sw := &ast.Node{K: ast.KOpt, S: c.S, S2: c.S2}
		return ast.Group(ast.GNon, ast.Seq(sw, c.Kids[0]))
	}
	return &c
}

func gen1(t *rapid.T) Case {
	var c Case
	all := "imsnx"
	for i := 0; i < len(all); i++ {
		if rapid.Bool().Draw(t, "O"+string(all[i])) {
			c.O += string(all[i])
		}
	}
	base := ast.Opts{}
	for _, l := range c.O {
		switch l {
		case 'i':
			base.I = true
		case 'm':
			base.M = true
		case 's':
			base.S = true
		case 'n':
			base.N = true
		case 'x':
			base.X = true
		}
	}
	if rapid.IntRange(0, 7).Draw(t, "corpus") == 0 {
		// corpus text is not x-safe (a '#' would comment out what the harness appends)
		c.O = strings.ReplaceAll(c.O, "x", "")
		c.Pattern = corpus.Patterns[rapid.IntRange(0, len(corpus.Patterns)-1).Draw(t, "corpusidx")].P
		if strings.Contains(c.Pattern, "#") {
			c.Pattern = "a|b" // an x-mode comment inside the corpus text would swallow the wrapper's closing parenthesis
		}
		c.Switch = c.Pattern
		for i := 0; i < 6; i++ {
			c.Inputs = append(c.Inputs, string(gen.Random(t, []rune(c.Pattern+"ab \n"), 10)))
		}
		return c
	}
	cfg := gen.Cfg{Depth: 4, Inline: "imsnx", CaseSafe: true, NamedRefsOnly: true}
	root := gen.Pattern(t, cfg)
	if k := rapid.IntRange(0, 5).Draw(t, "extraopt"); k <= 2 {
		// extra nested on/off groups around generated sub-patterns
		l := string(all[rapid.IntRange(0, len(all)-1).Draw(t, "extraletter")])
		o := &ast.Node{K: ast.KOpt}
		if rapid.Bool().Draw(t, "extraoff") {
			o.S2 = l
		} else {
			o.S = l
		}
		switch k {
		case 0:
			o.Kids = []*ast.Node{root}
			root = ast.Seq(o, gen.Pattern(t, gen.Cfg{Depth: 2, Inline: "imsnx", CaseSafe: true, NoBackref: true}))
		case 1:
			root = ast.Seq(gen.Pattern(t, gen.Cfg{Depth: 2, CaseSafe: true, NoBackref: true}), o, root)
		default:
			inner := &ast.Node{K: ast.KOpt, S2: o.S, S: o.S2, Kids: []*ast.Node{gen.Pattern(t, gen.Cfg{Depth: 2, CaseSafe: true, NoBackref: true})}}
			o.Kids = []*ast.Node{ast.Seq(root, inner)}
			root = o
		}
	}
	gen.Resolve(t, root, base, false, cfg)
	po := ast.PrintOpts{Blank: gen.Blanks(t)} // blanks are inserted only where x is in effect
	c.AST = root
	c.Pattern = ast.Print(root, po)
	sw := switchStyle(root)
	ast.Annotate(sw, base, false)
	c.Switch = ast.Print(sw, po)
	alpha := gen.Alphabet(root, false, 10)
	for i := 0; i < 8; i++ {
		if i%4 == 3 {
			c.Inputs = append(c.Inputs, string(gen.Random(t, alpha, 8)))
		} else {
			c.Inputs = append(c.Inputs, string(gen.Directed(t, root, false, alpha, true, 10)))
		}
	}
	return c
}

type failure struct {
	red Case
	msg string
}

func (f *failure) Error() string { return f.msg }

func comp(p string, o regexp2.RegexOptions) (*regexp2.Regexp, error) {
	re, err := regexp2.Compile(p, o)
	if err == nil {
		re.MatchTimeout = 3 * time.Second
	}
	return re, err
}

func check(c Case) error {
	o := optsOf(c.O)
	type variant struct {
		name string
		re   *regexp2.Regexp
		err  error
	}
	var vs []variant
	add := func(name, p string, opt regexp2.RegexOptions) {
		re, err := comp(p, opt)
		vs = append(vs, variant{name, re, err})
	}
	add("compile option", c.Pattern, o)
	if c.O != "" {
		add("leading (?"+c.O+")", "(?"+c.O+")"+c.Pattern, 0)
		add("wrapping (?"+c.O+":...)", "(?"+c.O+":"+c.Pattern+")", 0)
	}
	if c.Switch != c.Pattern {
		add("switch-style scoped groups", c.Switch, o)
	}
	h.Label("patterns")
	h.LabelIf(c.O != "", "O-nonempty")
	h.LabelIf(c.AST != nil && c.AST.Has(func(x *ast.Node) bool { return x.K == ast.KOpt }), "has-inline")
	if n := len(vs); n > 1 && vs[n-1].name == "switch-style scoped groups" && (vs[n-1].err == nil) != (vs[0].err == nil) {
		// only one printing is accepted (e.g. an option group directly inside a conditional): outside the property's domain
		h.Discard("switch-style-compile-differs")
		vs = vs[:n-1]
	}
	for _, v := range vs[1:] {
		if (v.err == nil) != (vs[0].err == nil) {
			return &failure{c, fmt.Sprintf("pattern %q O=%q: %s compiles: %v, %s compiles: %v", c.Pattern, c.O, vs[0].name, vs[0].err, v.name, v.err)}
		}
	}
	if vs[0].err != nil {
		h.Discard("compile-error")
		return nil
	}
	plain, perr := comp(c.Pattern, 0)
	if perr != nil && optsOf(c.O)&regexp2.IgnorePatternWhitespace == 0 {
		plain = nil
	}
	for _, v := range vs[1:] {
		if !reflect.DeepEqual(v.re.GetGroupNumbers(), vs[0].re.GetGroupNumbers()) || !reflect.DeepEqual(v.re.GetGroupNames(), vs[0].re.GetGroupNames()) {
			return &failure{c, fmt.Sprintf("pattern %q O=%q: groups differ: %s %v %v, %s %v %v", c.Pattern, c.O, vs[0].name, vs[0].re.GetGroupNumbers(), vs[0].re.GetGroupNames(), v.name, v.re.GetGroupNumbers(), v.re.GetGroupNames())}
		}
	}
	for _, s := range c.Inputs {
		r := []rune(s)
		// the entry points that may run the capture-free program: an option's spelling must not matter there either
		b0, e0 := vs[0].re.MatchString(s)
		all0, e1 := vs[0].re.FindAllRunesIndex(r, -1)
		if e0 == nil && e1 == nil {
			for _, v := range vs[1:] {
				b, err := v.re.MatchString(s)
				if err == nil && b != b0 {
					red := c
					red.Inputs = []string{s}
					return &failure{red, fmt.Sprintf("pattern %q O=%q input=%q: MatchString: %s gives %v, %s gives %v (text %q)", c.Pattern, c.O, s, vs[0].name, b0, v.name, b, v.re.String())}
				}
				all, err := v.re.FindAllRunesIndex(r, -1)
				if err == nil && !reflect.DeepEqual(all, all0) {
					red := c
					red.Inputs = []string{s}
					return &failure{red, fmt.Sprintf("pattern %q O=%q input=%q: FindAllRunesIndex: %s gives %v, %s gives %v (text %q)", c.Pattern, c.O, s, vs[0].name, all0, v.name, all, v.re.String())}
				}
			}
		}
		for at := 0; at <= len(r); at++ {
			h.Eval()
			m0, err := vs[0].re.FindRunesMatchStartingAt(r, at)
			if err != nil {
				h.Discard("timeout")
				continue
			}
			want := canon.FromMatch(vs[0].re, m0)
			for _, v := range vs[1:] {
				m, err := v.re.FindRunesMatchStartingAt(r, at)
				if err != nil {
					h.Discard("timeout")
					continue
				}
				if got := canon.FromMatch(v.re, m); !canon.Equal(got, want) {
					red := c
					red.Inputs = []string{s}
					return &failure{red, fmt.Sprintf("pattern %q O=%q input=%q startAt=%d: %s gives %s, %s gives %s (text %q)", c.Pattern, c.O, s, at, vs[0].name, want, v.name, got, v.re.String())}
				}
			}
			h.LabelIf(want.Matched, "match")
			matters := false
			if plain != nil && c.O != "" {
				if mp, err := plain.FindRunesMatchStartingAt(r, at); err == nil {
					matters = !canon.Equal(canon.FromMatch(plain, mp), want)
				}
			}
			if matters {
				h.Label("option-matters")
				h.NonTrivial(fmt.Sprintf("%s|%s|%q|%d", c.Pattern, c.O, s, at), func() any {
					return map[string]any{"pattern": c.Pattern, "O": c.O, "input": s, "start_at": at, "result": want.String()}
				})
			}
		}
	}
	return nil
}

func prop(t *rapid.T) {
	c := gen1(t)
	if err := h.Safely(func() error { return check(c) }); err != nil {
		red := c
		if f, ok := err.(*failure); ok {
			red = f.red
		}
		h.Violation(t, red, "%s", err.Error())
	}
}

func TestProp(t *testing.T) { rapid.Check(t, prop) }

// FuzzProp lets Go's coverage-guided mutator drive the structured generators (thorough tier).
func FuzzProp(f *testing.F) { f.Fuzz(rapid.MakeFuzz(prop)) }

func TestReplay(t *testing.T) { h.RunReplay(t, check) }
