package c07

import (
	"fmt"
	"reflect"
	"testing"

	regexp2 "github.com/dlclark/regexp2/v2"
	"github.com/dlclark/regexp2/v2/compat"
	"pgregory.net/rapid"

	"verif/internal/ast"
	"verif/internal/canon"
	"verif/internal/eng"
	"verif/internal/gen"
	"verif/internal/h"
)

type Case struct {
	Spec   eng.Spec  `json:"spec"`
	AST    *ast.Node `json:"ast,omitempty"`
	Inputs [][]byte  `json:"inputs"`
	Ns     []int     `json:"ns"`
}

func TestMain(m *testing.M) {
	h.Setup("C07",
		"F-full ASTs biased to nullable / zero-width shapes (a*, \\b, lookarounds, ^, $, \\G, a??, (a|)) and corpus patterns x all options incl. RightToLeft x inputs of 0-10 runes (multi-byte and invalid UTF-8) x n in {-1,0,1,2,3}; one evaluation = one (pattern,input): the FindStringMatch/FindNextMatch sequence is checked for order, disjointness, no repeated empty match, length<=len+1, each step is recomputed with the naive scan started at the previous end (one further after an empty match, \\G = previous end; for \\G-free patterns also with the public FindRunesMatchStartingAt), and FindAllRunesIndex / FindAllStringIndex / compat.FindAll* are compared with the sequence minus empty matches adjacent to the preceding match, truncated to n; non-trivial = the sequence has >=2 matches or contains an empty match; distinct = hash of (pattern, options, input)",
		map[string]float64{"empty-match": 0.40, "three-or-more": 0.20, "rtl": 0.15, "has-G/patterns": 0.05},
		"adjacency of an empty match is symmetric: it touches the preceding match at either end (only the end in scan direction can occur)")
	h.Ceiling("compile-error", 0.25)
	h.Main(m)
}

func gen1(t *rapid.T) Case {
	cfg := gen.Cfg{Depth: 3, Full: true, Inline: "ims"}
	var c Case
	if rapid.IntRange(0, 5).Draw(t, "fullspec") == 0 {
		spec, root, _ := gen.FullSpec(t, cfg, true, true, true)
		c.Spec, c.AST = spec, root
	} else {
		o, base := gen.FullOpts(t, true, true, true)
		o &^= regexp2.IgnorePatternWhitespace
		base.X = false
		c.Spec = eng.Spec{Options: int32(o)}
		root := gen.ZeroWidth(t, cfg)
		gen.Resolve(t, root, base, o&regexp2.ECMAScript != 0, cfg)
		c.Spec.Pattern = ast.Print(root, ast.PrintOpts{ECMA: o&regexp2.ECMAScript != 0})
		c.AST = root
	}
	alpha := []rune("ab \n")
	if c.AST != nil {
		alpha = gen.Alphabet(c.AST, false, 8)
	}
	for i := 0; i < 6; i++ {
		var in []rune
		if c.AST != nil && i%3 == 0 {
			in = gen.Directed(t, c.AST, false, alpha, false, 10)
		} else {
			in = gen.Random(t, alpha, 8)
		}
		c.Inputs = append(c.Inputs, []byte(gen.ByteString(t, in, 25)))
	}
	c.Ns = []int{-1, 0, 1, 2, 3}
	return c
}

type failure struct {
	red Case
	msg string
}

func (f *failure) Error() string { return f.msg }

type span struct{ I, L int }

func check(c Case) error {
	re, err := c.Spec.Compile()
	if err != nil {
		h.Discard("compile-error")
		return nil
	}
	rtl := c.Spec.RTL()
	hasG := regexp2.VerifCode(re).UsesStartAnchor()
	h.Label("patterns")
	h.LabelIf(hasG, "has-G")
	cre := compat.Wrap(re)
	for _, in := range c.Inputs {
		s := string(in)
		r := canon.Decode(s)
		offs := canon.ByteOffsets(s)
		n := len(r)
		fail := func(msg string) error {
			red := c
			red.Inputs = [][]byte{in}
			return &failure{red, fmt.Sprintf("pattern %q opts=%s input=%q: %s", c.Spec.Pattern, eng.OptString(c.Spec.Options), s, msg)}
		}
		h.Eval()
		// --- the FindNextMatch sequence
		var seq []*regexp2.Match
		m, err := re.FindStringMatch(s)
		timeout := false
		for steps := 0; ; steps++ {
			if err != nil {
				if canon.ErrClass(err) == "timeout" {
					timeout = true
					break
				}
				return fail("iteration error: " + err.Error())
			}
			if m == nil {
				break
			}
			if steps > n+2 {
				return fail(fmt.Sprintf("iteration did not stop after %d matches on %d runes", steps, n))
			}
			if verr := canon.Validate(re, m, r, &s); verr != nil {
				return fail("malformed match: " + verr.Error())
			}
			seq = append(seq, m)
			m, err = re.FindNextMatch(m)
		}
		if timeout {
			h.Discard("timeout")
			return nil
		}
		if len(seq) > n+1 {
			return fail(fmt.Sprintf("%d matches on %d runes", len(seq), n))
		}
		// --- order, disjointness, no repeated empty match; recomputation of every step
		start, origin := 0, 0
		if rtl {
			start, origin = n, n
		}
		hasEmpty := false
		for i, m := range seq {
			cur := span{m.RuneIndex, m.RuneLength}
			if cur.L == 0 {
				hasEmpty = true
			}
			if i > 0 {
				p := span{seq[i-1].RuneIndex, seq[i-1].RuneLength}
				if !rtl {
					if cur.I < p.I+p.L || cur.I <= p.I && !(p.L > 0 && cur.I >= p.I+p.L) {
						return fail(fmt.Sprintf("match %d (%d,%d) does not advance past match %d (%d,%d)", i, cur.I, cur.L, i-1, p.I, p.L))
					}
					if p.L == 0 && cur.I <= p.I {
						return fail(fmt.Sprintf("match %d (%d,%d) not after empty match at %d", i, cur.I, cur.L, p.I))
					}
				} else {
					if cur.I+cur.L > p.I {
						return fail(fmt.Sprintf("right-to-left: match %d (%d,%d) overlaps or does not descend below match %d (%d,%d)", i, cur.I, cur.L, i-1, p.I, p.L))
					}
					if p.L == 0 && cur.I+cur.L >= p.I {
						return fail(fmt.Sprintf("right-to-left: match %d (%d,%d) not before empty match at %d", i, cur.I, cur.L, p.I))
					}
				}
			}
			// recompute this step independently
			if start < 0 || start > n {
				return fail(fmt.Sprintf("match %d (%d,%d) returned although the search start %d is outside the input", i, cur.I, cur.L, start))
			}
			nm, nerr := regexp2.VerifNaiveFind(re, r, start, origin)
			if nerr == nil {
				want := canon.FromMatch(re, nm)
				if got := canon.FromMatch(re, m); !canon.Equal(got, want) {
					return fail(fmt.Sprintf("match %d is %s; independent search from %d (\\G=%d) gives %s", i, got, start, origin, want))
				}
				if !hasG {
					pm, perr := re.FindRunesMatchStartingAt(r, start)
					if perr == nil {
						if gp := canon.FromMatch(re, pm); !canon.Equal(gp, want) {
							return fail(fmt.Sprintf("FindRunesMatchStartingAt(%d) gives %s; naive scan gives %s", start, gp, want))
						}
					}
				}
			}
			// next search start
			if !rtl {
				origin = cur.I + cur.L
				start = origin
				if cur.L == 0 {
					start++
				}
			} else {
				origin = cur.I
				start = origin
				if cur.L == 0 {
					start--
				}
			}
		}
		// the sequence must be complete: nothing further is found
		if start >= 0 && start <= n {
			if nm, nerr := regexp2.VerifNaiveFind(re, r, start, origin); nerr == nil && nm != nil {
				return fail(fmt.Sprintf("iteration stopped after %d matches but an independent search from %d (\\G=%d) finds %s", len(seq), start, origin, canon.FromMatch(re, nm)))
			}
		}
		// --- find-all = sequence minus empty matches adjacent to the preceding match, truncated to n
		var kept []span
		for i, m := range seq {
			cur := span{m.RuneIndex, m.RuneLength}
			if i > 0 && cur.L == 0 {
				p := span{seq[i-1].RuneIndex, seq[i-1].RuneLength}
				if cur.I == p.I+p.L || cur.I == p.I {
					continue
				}
			}
			kept = append(kept, cur)
		}
		for _, k := range c.Ns {
			var wantR, wantB [][]int
			for i, sp := range kept {
				if k >= 0 && i >= k {
					break
				}
				wantR = append(wantR, []int{sp.I, sp.I + sp.L})
				wantB = append(wantB, []int{offs[sp.I], offs[sp.I+sp.L]})
			}
			gotR, err := re.FindAllRunesIndex(r, k)
			if err != nil {
				return fail("FindAllRunesIndex: " + err.Error())
			}
			if !sameIdx(gotR, wantR) {
				return fail(fmt.Sprintf("FindAllRunesIndex(n=%d) = %v, iteration gives %v", k, gotR, wantR))
			}
			gotB, err := re.FindAllStringIndex(s, k)
			if err != nil {
				return fail("FindAllStringIndex: " + err.Error())
			}
			if !sameIdx(gotB, wantB) {
				return fail(fmt.Sprintf("FindAllStringIndex(n=%d) = %v, iteration gives %v (bytes)", k, gotB, wantB))
			}
			if got := cre.FindAllStringIndex(s, k); !sameIdx(got, wantB) {
				return fail(fmt.Sprintf("compat.FindAllStringIndex(n=%d) = %v, iteration gives %v", k, got, wantB))
			}
			if got := cre.FindAllIndex(in, k); !sameIdx(got, wantB) {
				return fail(fmt.Sprintf("compat.FindAllIndex(n=%d) = %v, iteration gives %v", k, got, wantB))
			}
			gs := cre.FindAllString(s, k)
			if len(gs) != len(wantB) {
				return fail(fmt.Sprintf("compat.FindAllString(n=%d) has %d entries, iteration gives %d", k, len(gs), len(wantB)))
			}
			if got := cre.FindAllStringSubmatchIndex(s, k); len(got) != len(wantB) {
				return fail(fmt.Sprintf("compat.FindAllStringSubmatchIndex(n=%d) has %d entries, iteration gives %d", k, len(got), len(wantB)))
			} else {
				for i := range got {
					if got[i][0] != wantB[i][0] || got[i][1] != wantB[i][1] {
						return fail(fmt.Sprintf("compat.FindAllStringSubmatchIndex(n=%d)[%d] = %v, iteration gives %v", k, i, got[i][:2], wantB[i]))
					}
				}
			}
		}
		h.LabelIf(hasEmpty, "empty-match")
		h.LabelIf(len(seq) >= 3, "three-or-more")
		h.LabelIf(rtl, "rtl")
		if len(seq) >= 2 || hasEmpty {
			key := fmt.Sprintf("%s|%d|%q", c.Spec.Pattern, c.Spec.Options, s)
			h.NonTrivial(key, func() any {
				var sp []string
				for _, m := range seq {
					sp = append(sp, fmt.Sprintf("(%d,%d)", m.RuneIndex, m.RuneLength))
				}
				return map[string]any{"pattern": c.Spec.Pattern, "options": eng.OptString(c.Spec.Options), "input": s, "sequence": sp}
			})
		}
	}
	return nil
}

func sameIdx(a, b [][]int) bool {
	if len(a) == 0 && len(b) == 0 {
		return true
	}
	return reflect.DeepEqual(a, b)
}

func prop(t *rapid.T) {
	c := gen1(t)
	if err := h.Safely(func() error { return check(c) }); err != nil {
		if h.IsTimeoutPanic(err) {
			h.Discard("timeout")
			return
		}
		red := c
		if f, ok := err.(*failure); ok {
			red = f.red
		}
		h.Violation(t, red, "%s", err.Error())
	}
}

func TestProp(t *testing.T) { rapid.Check(t, prop) }

// FuzzProp lets Go's coverage-guided mutator drive the structured generators (thorough tier).
func FuzzProp(f *testing.F) { f.Fuzz(rapid.MakeFuzz(prop)) }

func TestReplay(t *testing.T) { h.RunReplay(t, check) }
