package c09

import (
	"fmt"
	"reflect"
	"testing"

	regexp2 "github.com/dlclark/regexp2/v2"
	"pgregory.net/rapid"

	"verif/internal/ast"
	"verif/internal/canon"
	"verif/internal/eng"
	"verif/internal/gen"
	"verif/internal/h"
	"verif/internal/repl"
)

type Case struct {
	Spec    eng.Spec  `json:"spec"`
	AST     *ast.Node `json:"ast,omitempty"`
	Inputs  [][]byte  `json:"inputs"`
	Reps    []string  `json:"replacements"`
	StartAt []int     `json:"start_at"` // rune offsets; -1 = default
	Counts  []int     `json:"counts"`
}

func TestMain(m *testing.M) {
	h.Setup("C09",
		"F-full ASTs, zero-width shapes and corpus patterns (ECMAScript included, with its longest-valid-prefix $nn rule) x LeftToRight/RightToLeft x inputs of 0-10 runes (valid UTF-8, multi-byte) x replacement strings from the $-grammar (valid $n ${n} ${name} $$ $& $` $' $+ $_, ambiguous $10 / $1a / ${1 / ${} / ${x}, literal $ at the end) x startAt in {-1, every aligned offset} x count in {-1,0,1,2,5}; one evaluation = one (pattern,input,replacement,startAt,count): Replace == independent fold of the Find*StartingAt/FindNextMatch sequence with the harness's own $-expander, ReplaceFunc(same expansion) == Replace, Replace($&) == input, Split(count) == fold of the sequence with groups interleaved; non-trivial = at least one match and a replacement containing a group or special reference; distinct = hash of the whole case",
		map[string]float64{"rtl": 0.10, "count-limited": 0.20, "startAt-inner": 0.10, "two-or-more": 0.12, "ref-in-replacement": 0.2},
		"$+ is the last capture of the last group in Groups() order (the reading of the .NET implementation this port follows)",
		"a $-reference that does not name an existing group is literal text (.NET documentation); under ECMAScript an un-braced $nn refers to the longest prefix of the digits that names a group")
	h.Ceiling("compile-error", 0.25)
	h.Main(m)
}

var repPieces = []string{"$1", "$2", "${1}", "${2}", "$0", "${0}", "$$", "$&", "$`", "$'", "$+", "$_", "$10", "$1a", "${1", "${}", "${x}", "${n0}", "${n1}", "$3", "$", "x", "-", "é", "$ ", "{", "}", "${n0", "$11", "${01}", "$01", "ab"}

func genRep(t *rapid.T) string {
	n := rapid.IntRange(0, 4).Draw(t, "nrep")
	s := ""
	for i := 0; i < n; i++ {
		s += rapid.SampledFrom(repPieces).Draw(t, "rep")
	}
	if rapid.IntRange(0, 5).Draw(t, "dollartail") == 0 {
		s += "$"
	}
	return s
}

func gen1(t *rapid.T) Case {
	cfg := gen.Cfg{Depth: 3, Full: true, Inline: "ims"}
	var c Case
	switch rapid.IntRange(0, 3).Draw(t, "source") {
	case 3:
		// balancing groups whose stacks are pushed and popped differently from match to match
		o, base := gen.FullOpts(t, true, false, false)
		o &^= regexp2.IgnorePatternWhitespace | regexp2.ExplicitCapture
		base.X, base.N = false, false
		push := ast.Group(ast.GNamed, ast.Lit(rapid.SampledFrom([]rune("a(<")).Draw(t, "open")))
		push.S = "n0"
		pop := ast.Group(ast.GBalance, ast.Lit(rapid.SampledFrom([]rune("b)>")).Draw(t, "close")))
		pop.S2 = "n0"
		if rapid.Bool().Draw(t, "popnamed") {
			pop.S = "n1"
		}
		qa := ast.Quant(push, rapid.IntRange(0, 1).Draw(t, "pmin"), -1, false)
		qb := ast.Quant(pop, 0, -1, rapid.Bool().Draw(t, "poplazy"))
		root := ast.Seq(qa, qb)
		if o&regexp2.RightToLeft != 0 {
			root = ast.Seq(qb, qa)
		}
		if rapid.IntRange(0, 2).Draw(t, "tail") == 0 {
			root.Kids = append(root.Kids, gen.Pattern(t, gen.Cfg{Depth: 1}))
		}
		gen.Resolve(t, root, base, false, cfg)
		c.Spec = eng.Spec{Options: int32(o), Pattern: ast.Print(root, ast.PrintOpts{})}
		c.AST = root
	case 0:
		o, base := gen.FullOpts(t, true, false, true)
		o &^= regexp2.IgnorePatternWhitespace
		base.X = false
		c.Spec = eng.Spec{Options: int32(o)}
		root := gen.ZeroWidth(t, cfg)
		gen.Resolve(t, root, base, false, cfg)
		c.Spec.Pattern = ast.Print(root, ast.PrintOpts{})
		c.AST = root
	default:
		spec, root, _ := gen.FullSpec(t, cfg, true, true, true)
		c.Spec, c.AST = spec, root
	}
	alpha := []rune("ab1 \n")
	if c.AST != nil {
		alpha = gen.Alphabet(c.AST, false, 8)
	}
	for i := 0; i < 3; i++ {
		var in []rune
		if c.AST != nil && i != 2 {
			in = gen.Directed(t, c.AST, false, alpha, false, 10)
		} else {
			in = gen.Random(t, alpha, 8)
		}
		c.Inputs = append(c.Inputs, []byte(string(in)))
	}
	for i := 0; i < 3; i++ {
		c.Reps = append(c.Reps, genRep(t))
	}
	c.StartAt = []int{-1, rapid.IntRange(0, 10).Draw(t, "startat")}
	c.Counts = []int{-1, rapid.SampledFrom([]int{0, 1, 2, 5}).Draw(t, "count")}
	return c
}

type failure struct {
	red Case
	msg string
}

func (f *failure) Error() string { return f.msg }

func groupsOf(re *regexp2.Regexp) repl.Groups {
	g := repl.Groups{Nums: re.GetGroupNumbers(), Names: map[string]int{}}
	for _, n := range re.GetGroupNames() {
		g.Names[n] = re.GroupNumberFromName(n)
	}
	return g
}

func sequence(re *regexp2.Regexp, r []rune, at int) ([]canon.Result, error) {
	var seq []canon.Result
	var m *regexp2.Match
	var err error
	if at < 0 {
		m, err = re.FindRunesMatch(r)
	} else {
		m, err = re.FindRunesMatchStartingAt(r, at)
	}
	for steps := 0; m != nil && err == nil; steps++ {
		if steps > len(r)+2 {
			return nil, fmt.Errorf("iteration does not terminate")
		}
		seq = append(seq, canon.FromMatch(re, m))
		m, err = re.FindNextMatch(m)
	}
	return seq, err
}

func check(c Case) error {
	re, err := c.Spec.Compile()
	if err != nil {
		h.Discard("compile-error")
		return nil
	}
	rtl := c.Spec.RTL()
	g := groupsOf(re)
	g.ECMA = regexp2.RegexOptions(c.Spec.Options)&regexp2.ECMAScript != 0
	for _, in := range c.Inputs {
		s := string(in)
		r := []rune(s)
		offs := canon.ByteOffsets(s)
		for _, at := range c.StartAt {
			if at > len(r) {
				at = at % (len(r) + 1)
			}
			byteAt := -1
			if at >= 0 {
				byteAt = offs[at]
			}
			seq, err := sequence(re, r, at)
			if err != nil {
				h.Discard("sequence-" + canon.ErrClass(err))
				continue
			}
			for _, rep := range c.Reps {
				toks := repl.Parse(rep, g)
				for _, count := range c.Counts {
					h.Eval()
					fail := func(msg string) error {
						red := c
						red.Inputs, red.Reps, red.StartAt, red.Counts = [][]byte{in}, []string{rep}, []int{at}, []int{count}
						return &failure{red, fmt.Sprintf("pattern %q opts=%s input=%q replacement=%q startAt=%d count=%d: %s", c.Spec.Pattern, eng.OptString(c.Spec.Options), s, rep, byteAt, count, msg)}
					}
					used := seq
					if count >= 0 && len(used) > count {
						used = used[:count]
					}
					want := repl.Fold(r, used, func(m canon.Result) string { return repl.Expand(toks, m, r) })
					// a bool-only call right before: Replace must not inherit anything from it
					_, _ = re.MatchString(s)
					got, err := re.Replace(s, rep, byteAt, count)
					if err != nil {
						if canon.ErrClass(err) == "timeout" {
							h.Discard("timeout")
							continue
						}
						return fail("Replace error: " + err.Error())
					}
					if got != want {
						return fail(fmt.Sprintf("Replace = %q, fold of the match sequence = %q", got, want))
					}
					gotF, err := re.ReplaceFunc(s, func(m regexp2.Match) string {
						return repl.Expand(toks, canon.FromMatch(re, &m), r)
					}, byteAt, count)
					if err != nil {
						if canon.ErrClass(err) == "timeout" {
							h.Discard("timeout")
							continue
						}
						return fail("ReplaceFunc error: " + err.Error())
					}
					if gotF != want {
						return fail(fmt.Sprintf("ReplaceFunc with the same expansion = %q, Replace = %q", gotF, want))
					}
					id, err := re.Replace(s, "$&", byteAt, count)
					if err == nil && id != s {
						return fail(fmt.Sprintf("Replace with $& = %q, not the input", id))
					}
					h.LabelIf(rtl, "rtl")
					h.LabelIf(count >= 0, "count-limited")
					h.LabelIf(at > 0 && at < len(r), "startAt-inner")
					h.LabelIf(len(seq) >= 2, "two-or-more")
					h.LabelIf(repl.HasRef(toks), "ref-in-replacement")
					if len(used) > 0 && repl.HasRef(toks) {
						key := fmt.Sprintf("%s|%d|%q|%q|%d|%d", c.Spec.Pattern, c.Spec.Options, s, rep, at, count)
						h.NonTrivial(key, func() any {
							return map[string]any{"pattern": c.Spec.Pattern, "options": eng.OptString(c.Spec.Options), "input": s, "replacement": rep, "start_at": byteAt, "count": count, "result": want}
						})
					}
				}
			}
		}
		// ---- Split
		seq, err := sequence(re, r, -1)
		if err != nil {
			continue
		}
		for _, count := range append([]int{0, 1}, c.Counts...) {
			h.Eval()
			got, err := re.Split(s, count)
			if err != nil {
				if canon.ErrClass(err) == "timeout" {
					continue
				}
				red := c
				red.Inputs = [][]byte{in}
				return &failure{red, fmt.Sprintf("pattern %q opts=%s input=%q: Split(count=%d) error %v", c.Spec.Pattern, eng.OptString(c.Spec.Options), s, count, err)}
			}
			var want []string
			switch {
			case count == 0:
				want = nil
			case count == 1:
				want = []string{s}
			default:
				used := seq
				if count > 0 && len(used) > count {
					used = used[:count]
				}
				if len(used) == 0 {
					want = []string{s}
				} else {
					// text order
					asc := append([]canon.Result(nil), used...)
					if rtl {
						for i, j := 0, len(asc)-1; i < j; i, j = i+1, j-1 {
							asc[i], asc[j] = asc[j], asc[i]
						}
					}
					prev := 0
					// with a count limit on a right-to-left pattern the unprocessed text is at the start
					for _, m := range asc {
						want = append(want, string(r[prev:m.I]))
						for gi := 1; gi < len(m.Groups); gi++ {
							gr := m.Groups[gi]
							if len(gr) == 0 {
								want = append(want, "")
							} else {
								cp := gr[len(gr)-1]
								want = append(want, string(r[cp.I:cp.I+cp.L]))
							}
						}
						prev = m.I + m.L
					}
					want = append(want, string(r[prev:]))
					// join property: pieces (without group entries) + matched texts rebuild the input
					rebuilt := ""
					step := len(asc[0].Groups)
					for i, m := range asc {
						rebuilt += want[i*step] + string(r[m.I:m.I+m.L])
					}
					rebuilt += want[len(want)-1]
					if rebuilt != s {
						return &failure{c, fmt.Sprintf("HARNESS: split fold does not rebuild the input: %q vs %q", rebuilt, s)}
					}
				}
			}
			if !(len(got) == 0 && len(want) == 0) && !reflect.DeepEqual(got, want) {
				red := c
				red.Inputs = [][]byte{in}
				red.Counts = []int{count}
				return &failure{red, fmt.Sprintf("pattern %q opts=%s input=%q: Split(count=%d) = %q, fold of the match sequence = %q", c.Spec.Pattern, eng.OptString(c.Spec.Options), s, count, got, want)}
			}
			h.Label("split")
		}
	}
	return nil
}

func prop(t *rapid.T) {
	c := gen1(t)
	if err := h.Safely(func() error { return check(c) }); err != nil {
		red := c
		if f, ok := err.(*failure); ok {
			red = f.red
		}
		h.Violation(t, red, "%s", err.Error())
	}
}

func TestProp(t *testing.T) { rapid.Check(t, prop) }

// FuzzProp lets Go's coverage-guided mutator drive the structured generators (thorough tier).
func FuzzProp(f *testing.F) { f.Fuzz(rapid.MakeFuzz(prop)) }

func TestReplay(t *testing.T) { h.RunReplay(t, check) }
