package c02

import (
	"fmt"
	"testing"

	regexp2 "github.com/dlclark/regexp2/v2"
	"pgregory.net/rapid"

	"verif/internal/ast"
	"verif/internal/eng"
	"verif/internal/entry"
	"verif/internal/gen"
	"verif/internal/h"
)

type Case struct {
	Spec   eng.Spec  `json:"spec"`
	AST    *ast.Node `json:"ast,omitempty"`
	Inputs [][]byte  `json:"inputs"`
	Alpha  [][]byte  `json:"alpha,omitempty"`  // bounded-exhaustive leg: symbols (byte strings, possibly invalid UTF-8) ...
	MaxLen int       `json:"maxlen,omitempty"` // ... and the maximal number of symbols
}

func TestMain(m *testing.M) {
	h.Setup("C02",
		"F-full ASTs (nullable loops, \\G, balancing groups, Unicode classes, sparse numbered groups), F-accel templates and harvested corpus patterns x all nine option bits x compile options (code-gen analysis, ASCII bitmap, capture order) x pattern-directed / random byte strings of 0-12 runes with multi-byte and invalid UTF-8, and for about 1/5 of the patterns every string of up to 4-5 symbols over 2-3 pattern-derived symbols plus one hostile symbol (invalid byte, U+FFFD, multi-byte rune); one evaluation = one (pattern,input) on which MatchString, MatchRunes, FindStringMatch, FindRunesMatch, both StartingAt variants at every aligned offset, both FindNextMatch iterations, FindAllRunesIndex/FindAllStringIndex (n in {-1,1,2}), 16 compat adapter methods, and the match enumeration inside ReplaceFunc, Replace and Split are compared; non-trivial = some entry point reports a match and the case exercises a divergent path (string prefix filter present, bool-only program present, non-ASCII input, or RightToLeft); distinct = hash of (pattern, options, compile options, input)",
		map[string]float64{"prefix-filter": 0.15, "quickcode": 0.10, "invalid-utf8": 0.10, "rtl": 0.10, "has-G/patterns": 0.012, "match": 0.12},
		"outputs of Replace/Split are compared in rune-decoded form (invalid bytes appear as U+FFFD), as the engine works on runes")
	h.Ceiling("compile-error", 0.25)
	h.Main(m)
}

func gen1(t *rapid.T) Case {
	cfg := gen.Cfg{Depth: 3, Full: true, Inline: "imsx"}
	var c Case
	switch rapid.IntRange(0, 3).Draw(t, "source") {
	case 0, 1:
		o, base := gen.FullOpts(t, true, true, true)
		c.Spec = eng.Spec{Options: int32(o), CodeGen: rapid.IntRange(0, 2).Draw(t, "codegen") == 0, NoBitmap: rapid.IntRange(0, 3).Draw(t, "nobitmap") == 0}
		root := gen.Accel(t, cfg)
		gen.Resolve(t, root, base, o&regexp2.ECMAScript != 0, cfg)
		po := ast.PrintOpts{ECMA: o&regexp2.ECMAScript != 0}
		if base.X {
			po.Blank = gen.Blanks(t)
		}
		c.Spec.Pattern = ast.Print(root, po)
		c.AST = root
	default:
		spec, root, _ := gen.FullSpec(t, cfg, true, true, true)
		c.Spec, c.AST = spec, root
	}
	alpha := []rune("ab1 \n")
	if c.AST != nil {
		alpha = gen.Alphabet(c.AST, regexp2.RegexOptions(c.Spec.Options)&regexp2.RE2 != 0, 10)
	} else {
		for _, r := range c.Spec.Pattern {
			if len(alpha) < 14 {
				alpha = append(alpha, r)
			}
		}
	}
	if rapid.IntRange(0, 4).Draw(t, "exhaustive") == 0 {
		// every string of up to MaxLen symbols over 2-3 pattern-derived symbols plus one invalid byte
		k := rapid.IntRange(1, 2).Draw(t, "alphasize")
		off := rapid.IntRange(0, len(alpha)-1).Draw(t, "alphaoff")
		for i := 0; i < k; i++ {
			c.Alpha = append(c.Alpha, []byte(string(alpha[(off+i)%len(alpha)])))
		}
		c.Alpha = append(c.Alpha, []byte(rapid.SampledFrom([]string{"\xff", "\x80", "é", "\n", "\uFFFD", "😀"}).Draw(t, "hostilesym")))
		c.MaxLen = map[int]int{2: 5, 3: 4}[len(c.Alpha)]
		return c
	}
	for i := 0; i < 5; i++ {
		var in []rune
		if c.AST != nil && i%3 != 2 {
			in = gen.Directed(t, c.AST, false, alpha, false, 12)
		} else {
			in = gen.Random(t, alpha, 10)
		}
		c.Inputs = append(c.Inputs, []byte(gen.ByteString(t, in, 12)))
	}
	return c
}

type failure struct {
	red Case
	msg string
}

func (f *failure) Error() string { return f.msg }

func check(c Case) error {
	re, err := c.Spec.Compile()
	if err != nil {
		h.Discard("compile-error")
		return nil
	}
	hasFilter := regexp2.VerifHasStringPrefixFilter(re)
	hasQuick := regexp2.VerifQuickCode(re) != nil
	rtl := c.Spec.RTL()
	h.Label("patterns")
	h.LabelIf(regexp2.VerifCode(re).UsesStartAnchor(), "has-G")
	inputs := c.Inputs
	if len(c.Alpha) > 0 {
		h.Label("exhaustive-pattern")
		var rec func(prefix []byte, n int)
		rec = func(prefix []byte, n int) {
			inputs = append(inputs, append([]byte{}, prefix...))
			if n == c.MaxLen {
				return
			}
			for _, sym := range c.Alpha {
				rec(append(append([]byte{}, prefix...), sym...), n+1)
			}
		}
		rec(nil, 0)
	}
	for _, in := range inputs {
		s := string(in)
		h.Eval()
		var st entry.Stats
		err := h.Safely(func() error {
			var e error
			st, e = entry.Check(re, s, []int{-1, 1, 2})
			return e
		})
		if h.IsTimeoutPanic(err) {
			h.Discard("timeout")
			return nil
		}
		if err != nil {
			red := c
			red.Inputs, red.Alpha, red.MaxLen = [][]byte{in}, nil, 0
			return &failure{red, fmt.Sprintf("pattern %q opts=%s codegen=%v nobitmap=%v captureorder=%v input=%q: %s", c.Spec.Pattern, eng.OptString(c.Spec.Options), c.Spec.CodeGen, c.Spec.NoBitmap, c.Spec.CaptureOrder, s, err)}
		}
		if st.Timeout {
			h.Discard("timeout")
			return nil
		}
		nonASCII, invalid := false, false
		for _, b := range in {
			if b >= 0x80 {
				nonASCII = true
			}
		}
		invalid = string([]rune(s)) != s
		h.LabelIf(hasFilter, "prefix-filter")
		h.LabelIf(hasQuick, "quickcode")
		h.LabelIf(invalid, "invalid-utf8")
		h.LabelIf(rtl, "rtl")
		h.LabelIf(st.Matched, "match")
		h.LabelIf(st.Matches >= 2, "multi-match")
		if (st.Matched || st.Matches > 0) && (hasFilter || hasQuick || nonASCII || rtl) {
			key := fmt.Sprintf("%s|%d|%v|%v|%v|%q", c.Spec.Pattern, c.Spec.Options, c.Spec.CodeGen, c.Spec.NoBitmap, c.Spec.CaptureOrder, s)
			h.NonTrivial(key, func() any {
				return map[string]any{"pattern": c.Spec.Pattern, "options": eng.OptString(c.Spec.Options), "codegen": c.Spec.CodeGen, "nobitmap": c.Spec.NoBitmap, "input": s, "matches": st.Matches}
			})
		}
	}
	return nil
}

func prop(t *rapid.T) {
	c := gen1(t)
	if err := h.Safely(func() error { return check(c) }); err != nil {
		if h.IsTimeoutPanic(err) {
			h.Discard("timeout")
			return
		}
		red := c
		if f, ok := err.(*failure); ok {
			red = f.red
		}
		h.Violation(t, red, "%s", err.Error())
	}
}

func TestProp(t *testing.T) { rapid.Check(t, prop) }

// FuzzProp lets Go's coverage-guided mutator drive the structured generators (thorough tier).
func FuzzProp(f *testing.F) { f.Fuzz(rapid.MakeFuzz(prop)) }

func TestReplay(t *testing.T) { h.RunReplay(t, check) }
