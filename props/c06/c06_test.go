package c06

import (
	"bytes"
	"fmt"
	"reflect"
	"regexp"
	"strings"
	"testing"
	"time"
	"unicode"
	"unicode/utf8"

	regexp2 "github.com/dlclark/regexp2/v2"
	"github.com/dlclark/regexp2/v2/compat"
	"pgregory.net/rapid"

	"verif/internal/ast"
	"verif/internal/cls"
	"verif/internal/gen"
	"verif/internal/h"
	"verif/internal/known"
)

type Case struct {
	Pattern string    `json:"pattern"`
	AST     *ast.Node `json:"ast,omitempty"`
	Inputs  [][]byte  `json:"inputs"`
	Ns      []int     `json:"ns"`
}

func TestMain(m *testing.M) {
	h.Setup("C06",
		"F-re2 ASTs (literals, ., classes incl. POSIX names and \\pL / \\p{Greek}, ^ $ \\A \\z \\b \\B, alternation, greedy/lazy quantifiers with counts <= 50 over non-nullable bodies, capturing / (?P<name>) / non-capturing groups, flags i m s as (?i) and (?i:...)) printed in the dialect common to both engines, compiled by regexp.Compile and compat.Compile(p, regexp2.RE2) x ASCII, multi-byte and invalid-UTF-8 inputs of 0-12 runes x n in {-1,0,1,2,3,100}; one evaluation = one (pattern,input): all 22 methods of compat.Matcher (reader methods with strings.Reader and with a width-1 RuneError reader) must be reflect.DeepEqual between the two engines, nil-ness included; non-trivial = Go finds a match and the pattern has a choice point or the input is not ASCII, or FindAll returns >= 2 matches, or an empty match is adjacent to a previous match; distinct = hash of (pattern, input)",
		map[string]float64{"multi-match": 0.15, "empty-match": 0.10, "invalid-utf8": 0.15, "unset-group": 0.03, "match": 0.25},
		"patterns accepted by one compiler and rejected by the other are counted as dialect-mismatch and not compared (the property quantifies over the common syntax)")
	h.Ceiling("dialect-mismatch", 0.05)
	h.Main(m)
}

type st struct {
	t      *rapid.T
	nNamed int
}

var re2Letters = []rune("abcxyAB01 _-\nksKS.@\t")

func (s *st) lit() rune {
	if rapid.IntRange(0, 7).Draw(s.t, "wide") == 0 {
		return rapid.SampledFrom([]rune{'é', 'λ', '日', 0x1F600, 'Ж', 0x212A, 0x017F, 0x0130}).Draw(s.t, "widelit")
	}
	return rapid.SampledFrom(re2Letters).Draw(s.t, "lit")
}

func (s *st) class() *ast.Node {
	e := &cls.Expr{Neg: rapid.IntRange(0, 3).Draw(s.t, "neg") == 0}
	n := rapid.IntRange(1, 3).Draw(s.t, "nitems")
	for i := 0; i < n; i++ {
		switch rapid.IntRange(0, 6).Draw(s.t, "ik") {
		case 0:
			e.Items = append(e.Items, cls.Item{Kind: cls.Short, Name: rapid.SampledFrom([]string{"d", "w", "s", "D", "W", "S"}).Draw(s.t, "sh")})
		case 1:
			e.Items = append(e.Items, cls.Item{Kind: cls.Posix, Name: rapid.SampledFrom([]string{"alnum", "alpha", "ascii", "blank", "cntrl", "digit", "graph", "lower", "print", "punct", "space", "upper", "word", "xdigit"}).Draw(s.t, "posix"), Neg: rapid.IntRange(0, 3).Draw(s.t, "pneg") == 0})
		case 2:
			e.Items = append(e.Items, cls.Item{Kind: cls.Prop, Name: rapid.SampledFrom([]string{"L", "Lu", "Ll", "N", "Nd", "Greek", "Latin", "Han", "P", "Zs"}).Draw(s.t, "prop"), Neg: rapid.Bool().Draw(s.t, "propneg")})
		case 3, 4:
			lo := rapid.SampledFrom([]rune("aAx0")).Draw(s.t, "lo")
			e.Items = append(e.Items, cls.Item{Kind: cls.Range, Lo: lo, Hi: lo + rune(rapid.IntRange(1, 5).Draw(s.t, "span"))})
		default:
			e.Items = append(e.Items, cls.Item{Kind: cls.Char, Lo: s.lit()})
		}
	}
	return ast.Class(e)
}

// escaped draws a caseless literal written with one of the escape notations both dialects accept
// (control-character names, \xHH, \x{H..}, \0OO octal, backslash + punctuation: the RE2 option
// gives every escape a literal default).
func (s *st) escaped() *ast.Node {
	style := rapid.SampledFrom([]string{"name", "x2", "xb", "oct", "punct"}).Draw(s.t, "escstyle")
	var pool []rune
	switch style {
	case "name":
		pool = []rune("\a\f\v\t\n\r")
	case "x2":
		pool = []rune("\x00\x07\t\n -_.@0159~\x7f\u00a0\u00b7\u00ff")
	case "oct":
		pool = []rune("\x00\x07\t\n -.0159!#%&,:;<=>")
	case "punct":
		pool = []rune("_-.@!#%&~`'\"<>/:;,=")
	default:
		pool = []rune("\x00\t\n -_.@0159\u00a0日\U0001F600\U0010FFFF\uFFFD")
	}
	n := ast.Lit(rapid.SampledFrom(pool).Draw(s.t, "escrune"))
	n.S = style
	return n
}

func (s *st) atom() *ast.Node {
	switch rapid.IntRange(0, 12).Draw(s.t, "atom") {
	case 12:
		return s.escaped()
	case 0:
		return ast.Dot()
	case 1, 2:
		return s.class()
	case 3:
		return ast.Anchor(rapid.SampledFrom([]string{"^", "$", `\A`, `\z`, `\b`, `\B`}).Draw(s.t, "anchor"))
	case 4:
		return &ast.Node{K: ast.KShort, S: rapid.SampledFrom([]string{"d", "w", "s", "D", "W", "S"}).Draw(s.t, "sh")}
	case 5:
		return &ast.Node{K: ast.KProp, S: rapid.SampledFrom([]string{"L", "Lu", "Greek", "Nd"}).Draw(s.t, "prop"), Neg: rapid.Bool().Draw(s.t, "pneg")}
	case 6:
		return ast.Lit(s.lit(), s.lit())
	default:
		return ast.Lit(s.lit())
	}
}

func (s *st) node(d int) *ast.Node {
	if d <= 0 {
		return s.atom()
	}
	switch k := rapid.IntRange(0, 11).Draw(s.t, "node"); {
	case k <= 2:
		n := ast.Seq()
		c := rapid.IntRange(2, 3).Draw(s.t, "seqlen")
		for i := 0; i < c; i++ {
			n.Kids = append(n.Kids, s.node(d-1))
		}
		return n
	case k <= 4:
		n := ast.Alt()
		c := rapid.IntRange(2, 3).Draw(s.t, "altlen")
		for i := 0; i < c; i++ {
			if rapid.IntRange(0, 7).Draw(s.t, "emptybranch") == 0 {
				n.Kids = append(n.Kids, ast.Empty())
			} else {
				n.Kids = append(n.Kids, s.node(d-1))
			}
		}
		return n
	case k <= 6:
		gk := rapid.SampledFrom([]ast.GKind{ast.GCap, ast.GCap, ast.GPyNamed, ast.GNon}).Draw(s.t, "gk")
		g := ast.Group(gk, s.node(d-1))
		if gk == ast.GPyNamed {
			g.S = fmt.Sprintf("n%d", s.nNamed)
			s.nNamed++
		}
		return g
	case k <= 8:
		var body *ast.Node
		for tries := 0; ; tries++ {
			body = s.node(d - 1)
			if !ast.Nullable(body) && !ast.BareRepeater(body) && !hasNullableQuant(body) {
				break
			}
			if tries >= 4 {
				body = ast.Lit(s.lit())
				break
			}
		}
		q := ast.Quant(body, 0, -1, rapid.IntRange(0, 2).Draw(s.t, "lazy") == 0)
		switch rapid.IntRange(0, 7).Draw(s.t, "qk") {
		case 7:
			// exact counts around the prefix analysis' expansion limit of a repeated group
			n := rapid.SampledFrom([]int{3, 4, 5, 6, 8}).Draw(s.t, "qexact")
			if body.Has(func(x *ast.Node) bool { return x.K == ast.KQuant }) {
				n = 2 // keep nested repetition small: the backtracking engine is exponential on ambiguous nests
			}
			q.Min, q.Max = n, n
		case 0:
			q.Min = 1
		case 1:
			q.Max = 1
		case 2:
			q.Min, q.Max = 2, 2
		case 3:
			q.Min, q.Max = 1, 3
		case 4:
			q.Min, q.Max = 2, -1
		case 5:
			q.Min, q.Max = 0, 2
		}
		return q
	case k == 9:
		o := &ast.Node{K: ast.KOpt}
		l := string("ims"[rapid.IntRange(0, 2).Draw(s.t, "optletter")])
		if rapid.IntRange(0, 3).Draw(s.t, "optoff") == 0 {
			o.S2 = l
		} else {
			o.S = l
		}
		if rapid.Bool().Draw(s.t, "scoped") {
			o.Kids = []*ast.Node{s.node(d - 1)}
			return o
		}
		return ast.Group(ast.GNon, ast.Seq(s.node(d-1), o, s.node(d-1)))
	default:
		return s.atom()
	}
}

func hasNullableQuant(n *ast.Node) bool { return false }

// sanitize keeps the pattern inside the syntax on which the two dialects agree: when the i flag
// occurs anywhere, negated POSIX classes, negated properties and the cased categories are avoided
// (Go folds a named class before negating it and folds categories; regexp2 does neither), as are
// \D \W \S inside bracket classes.
func sanitize(root *ast.Node) {
	hasI := root.Has(func(x *ast.Node) bool { return x.K == ast.KOpt && strings.Contains(x.S, "i") })
	if !hasI {
		return
	}
	root.Walk(func(x *ast.Node) {
		if x.K == ast.KProp {
			x.Neg = false
			if x.S == "Lu" || x.S == "Ll" {
				x.S = "L"
			}
		}
		if x.K == ast.KClass {
			for i := range x.C.Items {
				it := &x.C.Items[i]
				switch it.Kind {
				case cls.Posix:
					it.Neg = false
				case cls.Prop:
					it.Neg = false
					if it.Name == "Lu" || it.Name == "Ll" {
						it.Name = "L"
					}
				case cls.Short:
					it.Name = strings.ToLower(it.Name)
				}
			}
		}
	})
}

// oracleFactorsAcrossCaseFlag over-approximates the patterns on which regexp/syntax's alternation
// factoring is unsound: an alternation in which a cased letter occurs as a literal (or as a
// bracket class made only of single characters, which Go turns into a literal) in two different
// branches with different case sensitivity. (Go 1.25: `B|[Bb]x` does not match "bx",
// `xB|x(?i:b)y` does not match "xby".)
func oracleFactorsAcrossCaseFlag(root *ast.Node) bool {
	type key struct {
		orbit rune
		fold  bool
	}
	orbit := func(r rune) (rune, bool) {
		m := r
		for f := unicode.SimpleFold(r); f != r; f = unicode.SimpleFold(f) {
			if f < m {
				m = f
			}
		}
		return m, unicode.SimpleFold(r) != r
	}
	letters := func(b *ast.Node) map[key]bool {
		out := map[key]bool{}
		b.Walk(func(x *ast.Node) {
			switch x.K {
			case ast.KLit:
				for _, r := range x.R {
					if o, cased := orbit(r); cased {
						out[key{o, x.Eff.I}] = true
					}
				}
			case ast.KClass:
				if x.C == nil || x.C.Neg || x.C.Sub != nil {
					return
				}
				for _, it := range x.C.Items {
					if it.Kind != cls.Char {
						return
					}
				}
				for _, it := range x.C.Items {
					if o, cased := orbit(it.Lo); cased {
						// [Bb] becomes the folded literal, [B] the plain one: either is possible
						out[key{o, true}] = true
						if len(x.C.Items) == 1 && !x.Eff.I {
							delete(out, key{o, true})
							out[key{o, false}] = true
						}
					}
				}
			}
		})
		return out
	}
	bad := false
	root.Walk(func(x *ast.Node) {
		if bad || x.K != ast.KAlt {
			return
		}
		seen := map[key]int{}
		for i, b := range x.Kids {
			if b == nil {
				continue
			}
			for k := range letters(b) {
				if j, ok := seen[key{k.orbit, !k.fold}]; ok && j != i {
					bad = true
				}
			}
			for k := range letters(b) {
				if _, ok := seen[k]; !ok {
					seen[k] = i
				}
			}
		}
	})
	return bad
}

func printRE2(n *ast.Node) string {
	// the common dialect: like the canonical printer, but no \x{..} for control characters issues: both engines accept \x{HEX}
	return ast.Print(n, ast.PrintOpts{})
}

func gen1(t *rapid.T) Case {
	s := &st{t: t}
	root := s.node(rapid.IntRange(1, 4).Draw(t, "depth"))
	sanitize(root)
	ast.Annotate(root, ast.Opts{}, true)
	c := Case{AST: root, Pattern: printRE2(root)}
	alpha := gen.Alphabet(root, true, 10)
	for i := 0; i < 6; i++ {
		var in []rune
		if i%3 == 2 {
			in = gen.Random(t, alpha, 10)
		} else {
			in = gen.Directed(t, root, true, alpha, false, 20)
		}
		c.Inputs = append(c.Inputs, []byte(gen.ByteString(t, in, 12)))
	}
	c.Ns = []int{-1, 0, 1, 2, 3, 100}
	return c
}

type rr struct {
	s string
	i int
}

func (r *rr) ReadRune() (rune, int, error) {
	if r.i >= len(r.s) {
		return 0, 0, errEOF
	}
	c, w := utf8.DecodeRuneInString(r.s[r.i:])
	r.i += w
	return c, w, nil
}

type failure struct {
	red Case
	msg string
}

func (f *failure) Error() string { return f.msg }

// compare runs all 22 methods; it returns the first difference.
func compare(g, c compat.Matcher, in []byte, ns []int) string {
	s := string(in)
	eq := func(name string, a, b any) string {
		if !reflect.DeepEqual(a, b) {
			return fmt.Sprintf("%s: regexp %#v, compat %#v", name, a, b)
		}
		return ""
	}
	checks := []func() string{
		func() string {
			type stringer interface{ String() string }
			gs, ok1 := g.(stringer)
			cs, ok2 := c.(stringer)
			if !ok1 || !ok2 {
				return ""
			}
			return eq("String", gs.String(), cs.String())
		},
		func() string { return eq("Match", g.Match(in), c.Match(in)) },
		func() string { return eq("MatchString", g.MatchString(s), c.MatchString(s)) },
		func() string {
			return eq("MatchReader", g.MatchReader(strings.NewReader(s)), c.MatchReader(strings.NewReader(s)))
		},
		func() string {
			return eq("MatchReader(width-1 reader)", g.MatchReader(&rr{s: s}), c.MatchReader(&rr{s: s}))
		},
		func() string { return eq("Find", g.Find(in), c.Find(in)) },
		func() string { return eq("FindIndex", g.FindIndex(in), c.FindIndex(in)) },
		func() string {
			return eq("FindReaderIndex", g.FindReaderIndex(strings.NewReader(s)), c.FindReaderIndex(strings.NewReader(s)))
		},
		func() string {
			return eq("FindReaderSubmatchIndex", g.FindReaderSubmatchIndex(&rr{s: s}), c.FindReaderSubmatchIndex(&rr{s: s}))
		},
		func() string { return eq("FindString", g.FindString(s), c.FindString(s)) },
		func() string { return eq("FindStringIndex", g.FindStringIndex(s), c.FindStringIndex(s)) },
		func() string { return eq("FindStringSubmatch", g.FindStringSubmatch(s), c.FindStringSubmatch(s)) },
		func() string {
			return eq("FindStringSubmatchIndex", g.FindStringSubmatchIndex(s), c.FindStringSubmatchIndex(s))
		},
		func() string { return eq("FindSubmatch", g.FindSubmatch(in), c.FindSubmatch(in)) },
		func() string { return eq("FindSubmatchIndex", g.FindSubmatchIndex(in), c.FindSubmatchIndex(in)) },
	}
	for _, f := range checks {
		if d := f(); d != "" {
			return d
		}
	}
	for _, n := range ns {
		all := []func() string{
			func() string { return eq(fmt.Sprintf("FindAll(n=%d)", n), g.FindAll(in, n), c.FindAll(in, n)) },
			func() string {
				return eq(fmt.Sprintf("FindAllIndex(n=%d)", n), g.FindAllIndex(in, n), c.FindAllIndex(in, n))
			},
			func() string {
				return eq(fmt.Sprintf("FindAllString(n=%d)", n), g.FindAllString(s, n), c.FindAllString(s, n))
			},
			func() string {
				return eq(fmt.Sprintf("FindAllStringIndex(n=%d)", n), g.FindAllStringIndex(s, n), c.FindAllStringIndex(s, n))
			},
			func() string {
				return eq(fmt.Sprintf("FindAllStringSubmatch(n=%d)", n), g.FindAllStringSubmatch(s, n), c.FindAllStringSubmatch(s, n))
			},
			func() string {
				return eq(fmt.Sprintf("FindAllStringSubmatchIndex(n=%d)", n), g.FindAllStringSubmatchIndex(s, n), c.FindAllStringSubmatchIndex(s, n))
			},
			func() string {
				return eq(fmt.Sprintf("FindAllSubmatch(n=%d)", n), g.FindAllSubmatch(in, n), c.FindAllSubmatch(in, n))
			},
			func() string {
				return eq(fmt.Sprintf("FindAllSubmatchIndex(n=%d)", n), g.FindAllSubmatchIndex(in, n), c.FindAllSubmatchIndex(in, n))
			},
		}
		for _, f := range all {
			if d := f(); d != "" {
				return d
			}
		}
	}
	return ""
}

func nonASCIIWord(in []byte) bool {
	for _, r := range string(in) {
		if r >= 0x80 && cls.IsWord(r) {
			return true
		}
	}
	return false
}

func check(c Case) error {
	gre, gerr := regexp.Compile(c.Pattern)
	cre, cerr := compat.Compile(c.Pattern, regexp2.RE2)
	if gerr != nil || cerr != nil {
		if (gerr == nil) != (cerr == nil) {
			h.Discard("dialect-mismatch")
			h.Label(fmt.Sprintf("dialect-mismatch: go=%v regexp2=%v", gerr != nil, cerr != nil))
		} else {
			h.Discard("both-reject")
		}
		return nil
	}
	if c.AST != nil {
		ast.Annotate(c.AST, ast.Opts{}, true) // effective options are not serialised
	}
	if c.AST != nil && oracleFactorsAcrossCaseFlag(c.AST) {
		// oracle defect, not a regexp2 one: regexp/syntax factors `B|(?i:b)x` into `B(?:|x)`
		// ((*Regexp).Equal ignores FoldCase on literals), so Go's answer is not the reference here.
		h.Discard("oracle-defect: go regexp factors alternation prefixes across (?i)")
		return nil
	}
	cre.Unwrap().MatchTimeout = 500 * time.Millisecond
	hasBoundary := strings.Contains(c.Pattern, `\b`) || strings.Contains(c.Pattern, `\B`)
	// known finding: named groups are numbered after unnamed ones (not in pattern order)
	namedBeforeUnnamed := false
	if c.AST != nil {
		seenNamed := false
		c.AST.Walk(func(x *ast.Node) {
			if x.K == ast.KGroup && x.G == ast.GPyNamed {
				seenNamed = true
			}
			if x.K == ast.KGroup && x.G == ast.GCap && seenNamed {
				namedBeforeUnnamed = true
			}
		})
	}
	for _, in := range c.Inputs {
		h.Eval()
		if known.Enabled && hasBoundary && nonASCIIWord(in) {
			h.Excluded("c06-re2-wordboundary-unicode")
			continue
		}
		if known.Enabled && namedBeforeUnnamed {
			h.Excluded("c06-re2-named-group-order")
			continue
		}
		var diff string
		err := h.Safely(func() error {
			diff = compare(gre, cre, in, c.Ns)
			return nil
		})
		if h.IsTimeoutPanic(err) {
			h.Discard("timeout")
			return nil
		}
		if err != nil {
			diff = err.Error()
		}
		if diff != "" && known.IgnoreCaseU0130("c06-ignorecase-u0130", c.AST, string(in)) {
			continue
		}
		if diff != "" && hasBoundary && known.NonboundaryAtomic("c06-auto-atomic-nonboundary", func() bool {
			cre2, err := compat.Compile(c.Pattern, regexp2.RE2)
			if err != nil {
				return false
			}
			cre2.Unwrap().MatchTimeout = 500 * time.Millisecond
			return compare(gre, cre2, in, c.Ns) == ""
		}) {
			continue
		}
		if diff != "" {
			red := c
			red.Inputs = [][]byte{in}
			return &failure{red, fmt.Sprintf("pattern %q input=%q: %s", c.Pattern, string(in), diff)}
		}
		all := gre.FindAllIndex(in, -1)
		matched := len(all) > 0
		emptyAdj := false
		for i := range all {
			if all[i][0] == all[i][1] && i > 0 && all[i-1][1] == all[i][0] {
				emptyAdj = true
			}
		}
		unset := false
		for _, v := range gre.FindSubmatchIndex(in) {
			if v == -1 {
				unset = true
			}
		}
		hasEmpty := false
		for _, m := range all {
			if m[0] == m[1] {
				hasEmpty = true
			}
		}
		nonASCII := bytes.IndexFunc(in, func(r rune) bool { return r >= 0x80 }) >= 0
		h.LabelIf(matched, "match")
		h.LabelIf(len(all) >= 2, "multi-match")
		h.LabelIf(hasEmpty, "empty-match")
		h.LabelIf(!utf8.Valid(in), "invalid-utf8")
		h.LabelIf(unset, "unset-group")
		choice := c.AST != nil && ast.HasChoice(c.AST)
		if (matched && (choice || nonASCII)) || len(all) >= 2 || emptyAdj {
			h.NonTrivial(fmt.Sprintf("%s|%q", c.Pattern, in), func() any {
				return map[string]any{"pattern": c.Pattern, "input": string(in), "go_findall": fmt.Sprint(all)}
			})
		}
	}
	return nil
}

func prop(t *rapid.T) {
	c := gen1(t)
	if err := h.Safely(func() error { return check(c) }); err != nil {
		if h.IsTimeoutPanic(err) {
			h.Discard("timeout")
			return
		}
		red := c
		if f, ok := err.(*failure); ok {
			red = f.red
		}
		h.Violation(t, red, "%s", err.Error())
	}
}

func TestProp(t *testing.T) { rapid.Check(t, prop) }

// FuzzProp lets Go's coverage-guided mutator drive the structured generators (thorough tier).
func FuzzProp(f *testing.F) { f.Fuzz(rapid.MakeFuzz(prop)) }

func TestReplay(t *testing.T) { h.RunReplay(t, check) }
