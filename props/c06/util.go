package c06

import "io"

var errEOF = io.EOF
