// harvest collects pattern literals from the repository's own tests and corpora and
// writes internal/corpus/patterns.json (committed; regenerate with `go run ./cmd/harvest`).
package main

import (
	"bufio"
	"encoding/json"
	"fmt"
	"go/ast"
	"go/parser"
	"go/token"
	"os"
	"path/filepath"
	"regexp"
	"sort"
	"strconv"
	"strings"
	"time"
	"unicode/utf8"

	regexp2 "github.com/dlclark/regexp2/v2"
)

type entry struct {
	P   string `json:"p"`
	Src string `json:"src"`
}

func compiles(p string) bool {
	defer func() { _ = recover() }()
	re, err := regexp2.Compile(p)
	if err != nil {
		return false
	}
	re.MatchTimeout = 200 * time.Millisecond
	_, err = re.MatchString("aaaaaaaaaaaaaaaaaaaaaaaaaaaaab xyz 0123 \n")
	return err == nil
}

func main() {
	repo := "/repo"
	seen := map[string]bool{}
	var out []entry
	add := func(p, src string, max int) {
		if p == "" || len(p) > max || seen[p] || !utf8.ValidString(p) {
			return
		}
		seen[p] = true
		if !strings.ContainsAny(p, `\[(*+?|.^${`) {
			return // plain words are not interesting
		}
		if compiles(p) {
			out = append(out, entry{p, src})
		}
	}
	// 1. string literals of *_test.go
	filepath.Walk(repo, func(path string, info os.FileInfo, err error) error {
		if err != nil || info.IsDir() || !strings.HasSuffix(path, "_test.go") {
			return nil
		}
		fs := token.NewFileSet()
		f, err := parser.ParseFile(fs, path, nil, 0)
		if err != nil {
			return nil
		}
		ast.Inspect(f, func(n ast.Node) bool {
			if bl, ok := n.(*ast.BasicLit); ok && bl.Kind == token.STRING {
				if s, err := strconv.Unquote(bl.Value); err == nil {
					add(s, "tests", 70)
				}
			}
			return true
		})
		return nil
	})
	// 2. pcre
	if f, err := os.Open(filepath.Join(repo, "testdata/corpus/pcre/testoutput1")); err == nil {
		sc := bufio.NewScanner(f)
		sc.Buffer(make([]byte, 1<<20), 1<<20)
		re := regexp.MustCompile(`^/(.*)/[a-zA-Z,_=]*$`)
		for sc.Scan() {
			if m := re.FindStringSubmatch(sc.Text()); m != nil {
				add(m[1], "pcre", 60)
			}
		}
		f.Close()
	}
	// 3. re2 basic.dat
	if f, err := os.Open(filepath.Join(repo, "testdata/corpus/re2/basic.dat")); err == nil {
		sc := bufio.NewScanner(f)
		for sc.Scan() {
			fields := strings.FieldsFunc(sc.Text(), func(r rune) bool { return r == '\t' })
			if len(fields) >= 3 {
				add(fields[1], "re2", 60)
			}
		}
		f.Close()
	}
	// 4. rust-regex toml
	files, _ := filepath.Glob(filepath.Join(repo, "testdata/corpus/rust-regex/*.toml"))
	reS := regexp.MustCompile(`^regex\s*=\s*'(.*)'\s*$`)
	reD := regexp.MustCompile(`^regex\s*=\s*"(.*)"\s*$`)
	for _, fn := range files {
		b, _ := os.ReadFile(fn)
		for _, line := range strings.Split(string(b), "\n") {
			if m := reS.FindStringSubmatch(line); m != nil {
				add(m[1], "rust", 60)
			} else if m := reD.FindStringSubmatch(line); m != nil {
				if s, err := strconv.Unquote(`"` + m[1] + `"`); err == nil {
					add(s, "rust", 60)
				}
			}
		}
	}
	// 5. parser fuzz corpus shipped in the repository
	files, _ = filepath.Glob(filepath.Join(repo, "syntax/workdir/corpus/*"))
	sort.Strings(files)
	for _, fn := range files {
		b, _ := os.ReadFile(fn)
		add(string(b), "fuzzcorpus", 40)
	}
	sort.Slice(out, func(i, j int) bool { return out[i].P < out[j].P })
	b, _ := json.MarshalIndent(out, "", " ")
	if err := os.WriteFile("internal/corpus/patterns.json", b, 0o644); err != nil {
		panic(err)
	}
	cnt := map[string]int{}
	for _, e := range out {
		cnt[e.Src]++
	}
	fmt.Println(len(out), cnt)
}
