#!/usr/bin/env python3
"""For every 'fixed:' line of KNOWN_FINDINGS.txt: revert that commit in /repo (working tree only), hide the
property's regression witnesses, run the property's quick check and record whether the GENERATED search
re-finds the defect. Everything is undone afterwards. Output: seeded/revert-sweep.json + a table on stdout."""
import json, os, re, shutil, subprocess, sys, time
ENV = dict(os.environ, GOFLAGS="-mod=mod", GOPROXY="off")
def sh(cmd, cwd=None, timeout=3600):
    r = subprocess.run(cmd, shell=True, cwd=cwd, env=ENV, stdout=subprocess.PIPE, stderr=subprocess.STDOUT, text=True, timeout=timeout)
    return r.returncode, r.stdout
rows = []
only = set(sys.argv[1:])
for line in open("/verif/KNOWN_FINDINGS.txt"):
    m = re.match(r"fixed: property=(C\d+) ([0-9a-f]{7,}) (.*)", line.strip())
    if not m:
        continue
    prop, commit, what = m.groups()
    if only and commit not in only and prop not in only:
        continue
    assert sh("git -C /repo status --porcelain")[1].strip() == "", "/repo not clean"
    rc, out = sh("git -C /repo revert --no-commit %s" % commit)
    row = {"property": prop, "commit": commit, "what": what[:160]}
    if rc != 0:
        sh("git -C /repo revert --abort; git -C /repo reset -q --hard HEAD")
        row["result"] = "revert-conflict"
        rows.append(row); print(row, flush=True); continue
    rcb, outb = sh("go build ./... && go build -tags verif ./...", cwd="/repo")
    if rcb != 0:
        sh("git -C /repo reset -q --hard HEAD")
        row["result"] = "does-not-build"
        rows.append(row); print(row, flush=True); continue
    hid = []
    for d in ("/verif/regress/%s" % prop,):
        if os.path.isdir(d):
            shutil.move(d, d + ".hidden"); hid.append(d)
    try:
        t0 = time.time()
        rc, out = sh("./check %s quick" % prop, cwd="/verif")
        row["exit"] = rc
        row["seconds"] = round(time.time() - t0, 1)
        row["result"] = "refound-by-generation" if rc == 1 else ("missed" if rc == 0 else "inconclusive")
        det = [l.strip()[:240] for l in out.splitlines() if "h.go:" in l][:1]
        row["detail"] = det
    finally:
        for d in hid:
            shutil.move(d + ".hidden", d)
        sh("git -C /repo reset -q --hard HEAD")
        sh("rm -rf /verif/replays")
    rows.append(row); print(json.dumps(row), flush=True)
if not only:
    json.dump(rows, open("/verif/seeded/revert-sweep.json", "w"), indent=1)
print("refound %d / missed %d / other %d" % (sum(r["result"] == "refound-by-generation" for r in rows), sum(r["result"] == "missed" for r in rows), sum(r["result"] not in ("refound-by-generation", "missed") for r in rows)))
