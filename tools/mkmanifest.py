#!/usr/bin/env python3
"""Regenerates /verif/MANIFEST.json from tools/propconf.py (claimed checks) and the texts below."""
import json
import os
import subprocess
import sys

ROOT = os.path.dirname(os.path.dirname(os.path.abspath(__file__)))
sys.path.insert(0, os.path.join(ROOT, "tools"))
from propconf import CONF  # noqa: E402

TEXT = {
    "C01": dict(technique="property-based testing (rapid): model-based oracle - independent reference backtracking matcher vs engine",
                text="Generated-input search: F-core ASTs x option subsets x bounded-exhaustive and pattern-directed inputs x every start offset; FindRunesMatchStartingAt and FindStringMatchStartingAt must equal the reference matcher (match, span, every capture list). Held on everything explored; not a proof.",
                note="Trusts the hand-written reference matcher (guarded by a hand-checked table replayed on every run) and Go's unicode tables. IgnoreCase letters restricted to plain pairs, as the property states.", ref="§6 C01"),
    "C15": dict(technique="property-based testing (rapid): reference matcher run right-to-left + mirror-image metamorphic relation",
                text="Same machinery as C01 with RightToLeft: reference search descends from the start offset, consumes leftwards, evaluates concatenations last-to-first. Plus an oracle-independent leg: match_RTL(P,t) is the mirror of match_LTR(reverse(P),reverse(t)).",
                note="Trusts the reference matcher and the AST reversal of the harness.", ref="§6 C15"),
    "C03": dict(technique="property-based testing (rapid): differential - public find calls vs verif-only naive scan of the same compiled program",
                text="Generated-input search over F-accel templates (one per candidate-search mode) and corpus patterns x options x code-gen/bitmap x near-miss inputs x every start offset: FindRunesMatchStartingAt, FindStringMatchStartingAt and FindNextMatch must equal the naive scan (no candidate finder, no prefix filter, no length cut-off). Every find mode has a measured floor.",
                note="The naive scan shares the interpreter with the engine (isolates acceleration only). Trusts the hook in verif_hooks.go.", ref="§6 C03"),
    "C05": dict(technique="property-based testing (rapid): differential - program compiled with tree rewrites on vs gated off, both under the naive scan",
                text="Generated-input search over rewrite-shaped ASTs and corpus patterns x options x pattern-directed inputs x every offset: naive scan with rewrites on == naive scan with rewrites off == public find. Non-trivial cases are those where the two programs differ and the un-rewritten one matches.",
                note="Trusts the rewrite gates (verif tag) to switch off exactly the listed passes; the rest of the reducer runs in both variants.", ref="§6 C05"),
    "C07": dict(technique="property-based testing (rapid): history invariants over the FindNextMatch sequence + independent recomputation of every step (naive scan hook)",
                text="Generated-input search over zero-width-heavy ASTs and corpus patterns x options x inputs x n: order, disjointness, no repeated empty match, termination within len+1, every step recomputed by an independent search from the previous end with \\G bound there, completeness of the sequence, and FindAll*/compat.FindAll* equal to the filtered, truncated sequence.",
                note="Recomputation uses the naive-scan hook (same interpreter); for \\G-free patterns it is cross-checked with the public FindRunesMatchStartingAt.", ref="§6 C07"),
    "C02": dict(technique="property-based testing (rapid): differential between all public entry points of one compiled Regexp on one input",
                text="Generated-input search over F-full / F-accel ASTs and corpus patterns x all option bits x compile options x byte strings with multi-byte and invalid UTF-8: boolean calls, string/rune find calls, StartingAt at every aligned offset, both FindNextMatch iterations, FindAll*Index, 16 adapter methods and the match enumeration decoded from ReplaceFunc/Replace/Split must all describe the same matches and captures.",
                note="Agreement is a relation between entry points; which answer is right is C01/C03's job. Replace/Split outputs are compared in rune-decoded form.", ref="§6 C02"),
    "C08": dict(technique="property-based testing (rapid): validity predicate over every returned match + independent byte-offset model",
                text="Generated-input search (balancing groups, captures in lookbehind/loops, 1-4 byte runes, U+FFFD, invalid bytes, invalid runes): every match from string and rune iterations satisfies the structural predicate and ByteRange equals the byte model of the original string; ByteRange, FindAllStringIndex and the adapter index methods agree. The same predicate also runs on every match inside the C01, C02, C03, C07, C15 harnesses.",
                note="Byte model = utf8.DecodeRuneInString (invalid byte = one rune = one byte). Negative runes are outside the input domain.", ref="§6 C08"),
    "C09": dict(technique="property-based testing (rapid): reference fold over the match sequence with an independent $-grammar expander",
                text="Generated-input search over patterns x inputs x $-grammar replacement strings (valid, ambiguous, literal-$) x startAt x count x both directions: Replace == fold(match sequence, own expander); ReplaceFunc(same expansion) == Replace; Replace($&) == input; Split(count) == fold with groups interleaved and its pieces re-joined with the matched texts rebuild the input.",
                note="The match sequence comes from Find*StartingAt + FindNextMatch (validated by C07). $+ read as the last group in Groups() order. ECMAScript excluded.", ref="§6 C09"),
    "C10": dict(technique="fuzzing: rapid byte-level generation in the quick tier, native coverage-guided go fuzzing (5 targets) in the thorough tier; oracle = returns normally or with a permitted error, no panic, 30 s watchdog",
                text="Arbitrary bytes (corpus-seeded, mutated, hostile fragments) as pattern / input / replacement, all 2^9 option subsets, compile options incl. tiny stack limits, out-of-range start offsets and counts, driven through Compile/MustCompile, all match calls with full iteration, Replace/ReplaceFunc/Split, 22 adapter methods and Escape/Unescape. A process-killing failure (out of memory, fatal error) is reported with the case that was running.",
                note="Every Regexp gets MatchTimeout=100ms so exponential matching is a permitted error; hang = no return within 30 s on <=64-byte patterns and <=256-byte inputs. Native fuzz campaigns are not seed-reproducible; crashers are.", ref="§6 C10"),
    "C16": dict(technique="property-based testing (rapid): independent set-algebra evaluator over a class AST vs eleven lookup paths",
                text="Random class grammar (ranges, negation, nested subtraction, shorthands, \\p{..}, POSIX names) x {IgnoreCase, ECMAScript, RE2} x bitmap on/off x rune domain exhaustive over U+0000-U+024F plus endpoints, boundaries and samples (thorough: all 1,114,112 code points through the parsed set): CharIn of the parsed set, MatchRunes of \\A[..]\\z, [..]+ and x*[..], and the first match of [..]*! / [..]?m on r+follower (the class as a leading nullable loop whose first-char set is merged with the follower's) must equal the oracle.",
                note="Category/script tables are Go's (shared trusted base). IgnoreCase domain restricted exactly as the property states.", ref="§6 C16"),
    "C18": dict(technique="property-based testing (rapid): metamorphic - three spellings of an option set (compile option, leading (?O), wrapping (?O:...)) and scoped vs switch-style groups agree",
                text="F-core ASTs with nested on/off option groups and corpus patterns x all 32 subsets of {i,m,s,n,x} x inputs x every offset: the three spellings give equal matches and captures, equal MatchString / FindAllRunesIndex results, group numbers and names; (?o:X) agrees with (?:(?o)X). Non-trivial cases are those where O actually changes the result (measured against O = {}).",
                note="Pattern text is x-safe; insignificant blanks/comments are present exactly where x is in effect. Option groups directly inside an expression conditional are rejected by the parser (inherited .NET restriction) and are outside the domain.", ref="§6 C18"),
    "C19": dict(technique="property-based testing (rapid) + native go fuzzing: round-trip Unescape(Escape(s)) == s and literal-match predicate with one-edit mutants",
                text="Strings over all of Unicode (weighted to metacharacters, whitespace, controls, non-printable and unassigned code points below and above U+FFFF) x option subsets that keep literal meaning: round trip, \\A(?:Escape(s))\\z compiles, matches s and rejects up to 8 one-edit mutants.",
                note="Domain = valid UTF-8 strings. 'Matches nothing else' is sampled through mutants, not proved.", ref="§6 C19"),
    "C20": dict(technique="property-based testing (rapid): metamorphic - case flips of input letters and of pattern letters / class members / range endpoints leave the outcome unchanged",
                text="F-core and F-accel ASTs compiled with IgnoreCase (optionally RightToLeft; backreferences also inside lookbehinds) x inputs x random flip masks x one case-flipped printing of the pattern, through rune and string entry points (the raw-string prefix filter folds ASCII on its own): position, length and all captures are invariant.",
                note="Letters restricted to fold orbits of size two (ASCII without k/s, Latin-1, Greek, Cyrillic pairs), as the property states.", ref="§6 C20"),
    "C17": dict(technique="property-based testing (rapid): independent implementation of the documented numbering rule + distinct-token witness per group",
                text="Random mixes of unnamed, named, explicitly numbered (sparse), duplicate-named, nested and non-capturing groups with (?n)/(?-n) x {default, MaintainCaptureOrder, ECMAScript, RE2 (?P<>)}: predicted numbers/names vs GetGroupNumbers/Names, both lookups, Groups() order and names, GroupByNumber/Name, backreferences by number and name, $n/${name} replacements - each observed through the distinct token the group captures.",
                note="Explicit numbers are not generated under MaintainCaptureOrder/ECMAScript, duplicates not under ECMAScript (outside the documented rule).", ref="§6 C17"),
    "C06": dict(technique="property-based testing (rapid): differential against Go's regexp on the common RE2 syntax, all 22 Matcher methods, reflect.DeepEqual",
                text="F-re2 ASTs (no quantified nullable sub-pattern) compiled by regexp.Compile and compat.Compile(p, RE2) x ASCII / multi-byte / invalid-UTF-8 inputs x n in {-1,0,1,2,3,100}: every method of compat.Matcher must return exactly what Go returns (nil-ness, byte offsets, -1 pairs, empty-match rule).",
                note="Go's regexp is the reference, except for one shape on which Go itself is wrong (regexp/syntax factors `B|(?i:b)x` ignoring the case flag): patterns with a cased letter in two branches of one alternation under different case sensitivity are discarded and counted. Four recorded gaps (Unicode \\b, named-group numbering, U+0130 under IgnoreCase, the auto-atomic \\B rule) are excluded by narrow predicates and reported as KNOWN-FINDING; case-folded negated POSIX classes / categories are outside the common syntax. An adapter panic caused by a match timeout is a discard.", ref="§6 C06"),
    "C13": dict(technique="property-based testing (rapid): metamorphic in the limit L (result(L) in {result(unlimited), ErrBacktrackingStackLimit}, monotone in L) + capacity invariant via the scan-stats hook",
                text="Deep-nesting ASTs, chains of 3-14 single-character loops (left-to-right, RightToLeft, inside lookbehinds) and corpus patterns x inputs up to 60 runes x ~18 limits per case (0..200 dense, 256, 1000, 100000, -1): equality with the unlimited result or the limit error, no panic, allocated backtracking stack <= L for pooled and private interpreter states, monotonicity, and the Regexp answers a probe like a fresh one after every call.",
                note="Capacity is read through verif-tagged accessors (VerifScanStats, VerifPooledTrackCap).", ref="§6 C13"),
    "C14": dict(technique="property-based testing (rapid) over generated histories in virtual time (testing/synctest bubble: the harness owns the clock) + a small wall-clock leg",
                text="Histories (calls with one timeout value share one Regexp, so pooled interpreter states are reused) of timed long / quick matches, idle gaps around the clock's lifetime, StopTimeoutClock and concurrent deadlines run against the unmodified clock code on a fake clock: timeout fires in [d-2ms, d+4ms], quick matches never time out and return at their work time, the clock goroutine is gone 1 s + 5 ms after the last deadline and after StopTimeoutClock, and restarts on demand. A wall-clock leg runs real catastrophic patterns and a forward-only long match through the real interpreter with lenient bounds, a scheduling-stall canary and 3-in-a-row confirmation.",
                note="The virtual leg replaces the interpreter by a registered engine that polls CheckTimeout every 50 virtual microseconds; polling density of the real interpreter is only covered by the wall-clock leg. Liveness is checked as bounded-time safety.", ref="§6 C14"),
    "C12": dict(technique="property-based testing (rapid state machine, t.Repeat): every call in a generated history vs the same call on a freshly compiled Regexp",
                text="Histories of ~30 actions over 4 shared Regexps (balancing, bool-only program, backreference, stack limit 64, timeout, RightToLeft, replacement cache of 2, ...) x 13 entry points x inputs that match / fail / hit the limit / time out and cross the pooled-buffer size classes (1K/4K/16K runes) x 18 replacements: each outcome (canonical result or error class) equals the outcome on a fresh Regexp; probe calls re-check every shared Regexp; a burst action overflows the parsed-replacement cache and re-uses its newest entries.",
                note="Timeout-involving outcomes are confirmed three times before being reported. Failing histories are replayed from fresh shared Regexps.", ref="§6 C12"),
    "C11": dict(technique="property-based testing (rapid) of generated concurrent workloads under the race detector: concurrent results == precomputed sequential results",
                text="Generated workloads (3-6 shared Regexps, 150-2000 calls over 13 entry points incl. timed and stack-limited calls, more distinct replacements than the cache holds, inputs crossing pooled-buffer classes) x G in {2,4,8,32} goroutines x GOMAXPROCS in {1,2,4,16} x generated yield points; every concurrent result equals the sequential result on a fresh Regexp; built with -race, any race report fails the run (the workload that was running is saved as the replay).",
                note="Schedules are sampled by the Go scheduler, not enumerated: a regression guard for the runner pool, active-program reset, bitmap immutability, LRU mutex, global pools and clock; not an exhaustive interleaving exploration (DESIGN section 9).", ref="§6 C11"),
    "C04": dict(technique="property-based testing (rapid) with bounded-exhaustive inputs: validity predicate per published fact at every position where a single-position attempt of the same program matches",
                text="F-accel / F-full / corpus patterns x options x code-gen on/off x both directions; every string up to length 4-5 over a pattern-derived alphabet plus sampled longer strings; every attempt position and two \\G origins: each published fact (min/max length, leading/trailing anchors, Anchors bits, leading prefix(es), fixed-distance literal and sets with their summaries, literal after loop, landmark chain, first-char set, Boyer-Moore prefix) must hold wherever the program actually matches.",
                note="Matching positions come from the verif-only single-attempt hook (no candidate search), so an over-strong fact cannot hide its counter-examples. Predicates are written from the documented meaning of the fields.", ref="§6 C04"),
}

PENDING = "check not built yet in this session (work in progress; see DESIGN.md section 6 for the planned generated-input check)"


def main():
    hooks_commits = subprocess.run(["git", "-C", "/repo", "log", "--format=%h %s", "--grep", "^verif hooks"],
                                   stdout=subprocess.PIPE, text=True).stdout.strip().splitlines()
    props = [json.loads(l)["id"] for l in open(os.path.join(ROOT, "properties.jsonl"))]
    checks = []
    na = []
    for pid in props:
        if pid in CONF and pid in TEXT:
            t = TEXT[pid]
            checks.append({
                "property_id": pid,
                "quick_cmd": "./check %s quick" % pid,
                "thorough_cmd": "./check %s thorough" % pid,
                "evidence_file": "/verif/evidence/%s.json" % pid,
                "replay_cmd_template": "./check %s replay {path}" % pid,
                "engine": "rapid-pbt",
                "level_claimed": {"category": "exploration", "text": t["text"], "design_ref": t["ref"]},
                "level_note": t["note"],
                "technique": t["technique"],
            })
        else:
            na.append({"property_id": pid, "reason": PENDING})
    man = {
        "version": 1,
        "setup_cmd": "cd /verif && GOFLAGS=-mod=mod GOPROXY=off go build -tags verif ./... && GOFLAGS=-mod=mod GOPROXY=off go vet -tags verif ./internal/...",
        "hooks": {
            "guard": "verif",
            "enable": "go build tag: checks build /repo through the replace directive in /verif/go.mod with `go test -c -tags verif`",
            "baseline_off_cmd": "cd /repo && GOFLAGS=-mod=mod GOPROXY=off go test -vet=off -count=1 -timeout 25m ./...",
            "source_commits": [c.split()[0] for c in hooks_commits],
            "add_only": True,
        },
        "engines": [
            {"name": "rapid-pbt", "path": "/verif/check", "serves_properties": [c["property_id"] for c in checks],
             "kind_free_text": "pgregory.net/rapid v1.3.0 property tests, sharded over processes by the python driver; native go fuzzing in thorough tiers where listed"},
        ],
        "checks": checks,
        "notes": "All checks are property-based tests / fuzzers with explicit oracles; see DESIGN.md. KNOWN_FINDINGS.txt lists repaired defects (fixed:) and recorded findings (known:).",
    }
    if na:
        man["not_applicable"] = na
    json.dump(man, open(os.path.join(ROOT, "MANIFEST.json"), "w"), indent=1)
    print("wrote MANIFEST.json: %d checks, %d not claimed" % (len(checks), len(na)))


if __name__ == "__main__":
    main()
