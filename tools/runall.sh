#!/bin/bash
# runs every claimed quick (or thorough) check and prints one line per property
tier=${1:-quick}
cd "$(dirname "$0")/.."
for p in C01 C02 C03 C04 C05 C06 C07 C08 C09 C10 C11 C12 C13 C14 C15 C16 C17 C18 C19 C20; do
  out=$(./check $p $tier 2>&1); rc=$?
  echo "$p exit=$rc $(echo "$out" | grep '^property=' | tail -1 | cut -d' ' -f4-)"
  if [ $rc -ne 0 ]; then echo "$out" | grep -E "h.go:|INCONCLUSIVE|regression case fails" | cut -c1-300 | head -5; fi
done
