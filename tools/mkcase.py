#!/usr/bin/env python3
"""mkcase.py <property> <outfile> <pattern> <optionbits> <input-python-bytes-literal> [at] [codegen]  -- writes a spec/inputs replay case
(format shared by C02, C03, C05, C07, C08)."""
import ast, base64, json, sys
prop, out, pattern, opts, inp = sys.argv[1:6]
at = int(sys.argv[6]) if len(sys.argv) > 6 else 0
codegen = len(sys.argv) > 7 and sys.argv[7] == "codegen"
b = ast.literal_eval(inp)
if isinstance(b, str):
    b = b.encode("utf-8")
case = {"spec": {"pattern": pattern, "options": int(opts, 0), "codegen": codegen}, "inputs": [base64.b64encode(b).decode()], "at": at, "one_offset": True}
json.dump({"property": prop, "message": "hand-written witness", "case": case}, open(out, "w"), indent=1)
