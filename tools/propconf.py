# Per-property run configuration for ./check (package, case counts per shard, shards, wedge guards).
CONF = {
    "C01": dict(pkg="props/c01", quick=dict(checks=3000, shards=8, timeout=600), thorough=dict(checks=12000, shards=16, timeout=3600)),
    "C15": dict(pkg="props/c15", quick=dict(checks=3000, shards=8, timeout=600), thorough=dict(checks=12000, shards=16, timeout=3600)),
    "C03": dict(pkg="props/c03", quick=dict(checks=1500, shards=8, timeout=600), thorough=dict(checks=40000, shards=16, timeout=3600)),
    "C05": dict(pkg="props/c05", quick=dict(checks=2000, shards=8, timeout=600), thorough=dict(checks=40000, shards=16, timeout=3600)),
    "C07": dict(pkg="props/c07", quick=dict(checks=2500, shards=8, timeout=600), thorough=dict(checks=60000, shards=16, timeout=3600)),
    "C02": dict(pkg="props/c02", quick=dict(checks=1500, shards=8, timeout=600), thorough=dict(checks=60000, shards=16, timeout=3600)),
    "C08": dict(pkg="props/c08", quick=dict(checks=1500, shards=8, timeout=600), thorough=dict(checks=60000, shards=16, timeout=3600)),
    "C09": dict(pkg="props/c09", quick=dict(checks=1000, shards=8, timeout=600), thorough=dict(checks=40000, shards=16, timeout=3600)),
    "C10": dict(pkg="props/c10", crash_is_violation=True, quick=dict(checks=2500, shards=8, timeout=900), thorough=dict(checks=60000, shards=16, timeout=3600),
                fuzz=[dict(name="FuzzCompile", seconds=180), dict(name="FuzzMatchAPIs", seconds=240), dict(name="FuzzReplaceSplit", seconds=180),
                      dict(name="FuzzCompat", seconds=180), dict(name="FuzzEscape", seconds=60)]),
    "C16": dict(pkg="props/c16", quick=dict(checks=2000, shards=8, timeout=600), thorough=dict(checks=1500, shards=16, timeout=3600)),
    "C18": dict(pkg="props/c18", quick=dict(checks=2000, shards=8, timeout=600), thorough=dict(checks=50000, shards=16, timeout=3600)),
    "C20": dict(pkg="props/c20", quick=dict(checks=3000, shards=8, timeout=600), thorough=dict(checks=80000, shards=16, timeout=3600)),
    "C19": dict(pkg="props/c19", quick=dict(checks=12000, shards=8, timeout=600), thorough=dict(checks=300000, shards=16, timeout=3600),
                fuzz=[dict(name="FuzzEscapeRoundTrip", seconds=120)]),
}
