#!/usr/bin/env python3
"""seedtest.py <name> <property> <dir-with-patch.diff-and-mutdemo_test.go> [extra check ids...]

Confirms a seeded change (compiles, existing suite green, demonstration fails with / passes without it) in a
scratch worktree outside /repo and /verif, then applies it to /repo, runs the quick check of the property
(and of any extra ids), undoes it, and records everything under /verif/seeded/<name>/.
"""
import json
import os
import shutil
import subprocess
import sys
import time

ENV = dict(os.environ, GOFLAGS="-mod=mod", GOPROXY="off")
ENV.pop("GOSUMDB", None)


def sh(cmd, cwd=None, timeout=1800):
    r = subprocess.run(cmd, shell=True, cwd=cwd, env=ENV, stdout=subprocess.PIPE, stderr=subprocess.STDOUT, text=True, timeout=timeout)
    return r.returncode, r.stdout


def main():
    name, prop, src = sys.argv[1], sys.argv[2], sys.argv[3]
    extra = sys.argv[4:]
    patch = os.path.join(src, "patch.diff")
    demo = os.path.join(src, "mutdemo_test.go")
    assert os.path.exists(patch) and os.path.exists(demo), "patch.diff / mutdemo_test.go missing"
    demotext = open(demo).read()
    demodir = "compat" if "package compat" in demotext else "."
    wt = "/tmp/seedtest-%s-%d" % (name, os.getpid())
    meta = {"name": name, "property": prop, "ran": []}
    try:
        rc, out = sh("git -C /repo worktree add -q --detach %s HEAD" % wt)
        assert rc == 0, out
        # without the change: demo passes
        shutil.copy(demo, os.path.join(wt, demodir, "mutdemo_test.go"))
        rc0, out0 = sh("go test -vet=off -count=1 -run TestMutDemo ./%s" % demodir, cwd=wt)
        meta["demo_without_change"] = "pass" if rc0 == 0 else "FAIL"
        # with the change
        rc, out = sh("git apply %s" % patch, cwd=wt)
        assert rc == 0, "patch does not apply: " + out
        rcb, outb = sh("go build ./... && go build -tags verif ./...", cwd=wt)
        meta["builds"] = rcb == 0
        os.remove(os.path.join(wt, demodir, "mutdemo_test.go"))
        rcs, outs = sh("go test -vet=off -count=1 ./...", cwd=wt)
        meta["existing_suite_with_change"] = "pass" if rcs == 0 else "FAIL"
        shutil.copy(demo, os.path.join(wt, demodir, "mutdemo_test.go"))
        rc1, out1 = sh("go test -vet=off -count=1 -run TestMutDemo ./%s" % demodir, cwd=wt)
        meta["demo_with_change"] = "fail" if rc1 != 0 else "PASSES (not a valid seed)"
        meta["ran"].append("scratch worktree %s: go build (+ -tags verif), go test ./... with the change, TestMutDemo with and without the change" % wt)
        valid = rc0 == 0 and rcb == 0 and rcs == 0 and rc1 != 0
        meta["confirmed"] = valid
        if not valid:
            print("NOT CONFIRMED:", json.dumps(meta, indent=1))
            print(outs[-1500:] if rcs != 0 else (out1[-800:] + out0[-800:]))
    finally:
        sh("git -C /repo worktree remove --force %s" % wt)
        shutil.rmtree(wt, ignore_errors=True)
    results = {}
    if meta.get("confirmed"):
        st, _ = sh("git -C /repo status --porcelain")
        assert _.strip() == "", "/repo is not clean: " + _
        rc, out = sh("git -C /repo apply %s" % patch)
        assert rc == 0, out
        try:
            for pid in [prop] + extra:
                t0 = time.time()
                rc, out = sh("./check %s quick" % pid, cwd="/verif", timeout=3600)
                viol = [l for l in out.splitlines() if l.startswith("VIOLATION")]
                detail = [l.strip()[:300] for l in out.splitlines() if "h.go:" in l or "regression case fails" in l][:3]
                results[pid] = {"exit": rc, "violations": len(viol), "seconds": round(time.time() - t0, 1), "detail": detail}
                print(pid, "exit", rc, "violations", len(viol), detail[:1])
        finally:
            sh("git -C /repo checkout -- .")
            sh("rm -rf /verif/replays")
    meta["checks_with_change_applied_to_repo"] = results
    meta["caught_by"] = [k for k, v in results.items() if v["exit"] == 1]
    dst = os.path.join("/verif/seeded", name)
    os.makedirs(dst, exist_ok=True)
    shutil.copy(patch, os.path.join(dst, "patch.diff"))
    shutil.copy(demo, os.path.join(dst, "mutdemo_test.go"))
    notes = os.path.join(src, "NOTES.md")
    if os.path.exists(notes):
        shutil.copy(notes, os.path.join(dst, "NOTES.md"))
        meta["needs_to_manifest"] = "see NOTES.md"
    json.dump(meta, open(os.path.join(dst, "meta.json"), "w"), indent=1)
    print(json.dumps({k: meta[k] for k in ("confirmed", "caught_by")}))


if __name__ == "__main__":
    main()
