#!/usr/bin/env python3
"""Regenerates /verif/seeded/README.md from the meta.json files and seeded/history.json."""
import glob, json, os
root = "/verif/seeded"
hist = json.load(open(os.path.join(root, "history.json")))
rows = []
for f in sorted(glob.glob(os.path.join(root, "*", "meta.json"))):
    m = json.load(open(f))
    rows.append((m["name"], m["property"], "yes" if m.get("confirmed") else "NO", ", ".join(m.get("caught_by") or []) or "-", hist.get(m["name"], "")))
with open(os.path.join(root, "README.md"), "w") as o:
    o.write("# Seeded changes\n\nEach directory holds a change to dlclark/regexp2 written by an independent sub-agent that was given only the text of one property and a scratch worktree: `patch.diff` (library change), `mutdemo_test.go` (fails with the change, passes without), `NOTES.md` (the author's notes: what is needed to manifest) and `meta.json` (what `tools/seedtest.py` ran: build, unedited suite with the change, demonstration both ways in a scratch worktree; then the quick checks with the change applied to /repo, undone afterwards). None of these changes is committed to /repo.\n\n")
    o.write("| seed | property | confirmed | caught by (quick tier, current machinery) | history |\n|---|---|---|---|---|\n")
    for r in rows:
        o.write("| %s | %s | %s | %s | %s |\n" % r)
print(len(rows), "seeds")
