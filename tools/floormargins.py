#!/usr/bin/env python3
"""Prints, from the evidence files of the last runs, how far every generator-health label is above its floor
(ratio = measured / floor; anything below ~1.3 deserves a look before it turns into an INCONCLUSIVE)."""
import glob, json
rows = []
for f in sorted(glob.glob("/verif/evidence/*.json")):
    d = json.load(open(f))
    c = d["coverage"]
    ev = max(1, c["evaluations"])
    for lab, fl in (c.get("floors") or {}).items():
        name, denom = lab, ev
        if "/" in lab:
            name, dl = lab.split("/", 1)
            denom = max(1, c["labels"].get(dl, 0))
        frac = c["labels"].get(name, 0) / denom
        rows.append((frac / fl if fl else 99, d["property_id"], lab, frac, fl))
for r in sorted(rows)[:15]:
    print("%5.2fx %s %-40s %.4f floor %.4f" % r)
