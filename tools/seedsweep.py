#!/usr/bin/env python3
"""Re-evaluates every kept seeded change against the CURRENT machinery: applies seeded/<name>/patch.diff to /repo
(working tree only), runs the quick check of the seed's property, undoes the change. For seeds whose history says the
property's own check cannot see them, the check that owns them (first entry of caught_by) is run instead.
Writes seeded/sweep.json and prints one line per seed."""
import glob, json, os, subprocess, sys, time
ENV = dict(os.environ, GOFLAGS="-mod=mod", GOPROXY="off")
def sh(cmd, cwd=None, timeout=3600):
    r = subprocess.run(cmd, shell=True, cwd=cwd, env=ENV, stdout=subprocess.PIPE, stderr=subprocess.STDOUT, text=True, timeout=timeout)
    return r.returncode, r.stdout
rows = []
only = set(sys.argv[1:])
for d in sorted(glob.glob("/verif/seeded/seed-*/")):
    name = os.path.basename(d.rstrip("/"))
    if only and name not in only:
        continue
    meta = json.load(open(d + "meta.json"))
    prop = meta["property"]
    owner = prop if prop in (meta.get("caught_by") or [prop]) else (meta.get("caught_by") or [prop])[0]
    assert sh("git -C /repo status --porcelain")[1].strip() == "", "/repo not clean"
    rc, out = sh("git -C /repo apply %spatch.diff" % d)
    if rc != 0:
        rows.append({"seed": name, "result": "patch-does-not-apply"}); print(name, "patch-does-not-apply", flush=True); continue
    try:
        t0 = time.time()
        rc, out = sh("./check %s quick" % owner, cwd="/verif")
        res = "caught" if rc == 1 else ("MISSED" if rc == 0 else "inconclusive")
    finally:
        sh("git -C /repo checkout -- .")
        sh("rm -rf /verif/replays")
    rows.append({"seed": name, "checked_by": owner, "result": res, "seconds": round(time.time() - t0, 1)})
    print(name, owner, res, rows[-1]["seconds"], flush=True)
if not only:
    json.dump(rows, open("/verif/seeded/sweep.json", "w"), indent=1)
print("caught %d / missed %d / other %d" % (sum(r["result"] == "caught" for r in rows), sum(r["result"] == "MISSED" for r in rows), sum(r["result"] not in ("caught", "MISSED") for r in rows)))
