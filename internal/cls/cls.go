// Package cls is the character-class AST, its printer and an independent
// set-algebra evaluator (the oracle of C16, also used by the reference matcher).
package cls

import (
	"fmt"
	"strings"
	"unicode"
)

type ItemKind int

const (
	Char  ItemKind = iota // single rune Lo
	Range                 // Lo-Hi
	Short                 // \d \w \s \D \W \S   (Name = letter)
	Prop                  // \p{Name} / \P{Name} (Neg)
	Posix                 // [:name:] / [:^name:] (RE2 only)
)

type Item struct {
	Kind ItemKind `json:"k"`
	Lo   rune     `json:"lo,omitempty"`
	Hi   rune     `json:"hi,omitempty"`
	Name string   `json:"n,omitempty"`
	Neg  bool     `json:"neg,omitempty"`
}

// Expr is a bracket class: [^items-[sub]].
type Expr struct {
	Neg   bool   `json:"neg,omitempty"`
	Items []Item `json:"items"`
	Sub   *Expr  `json:"sub,omitempty"`
}

// Opts are the options that change class meaning.
type Opts struct {
	I    bool // IgnoreCase
	ECMA bool
	RE2  bool
}

// ---------- printing

func hexEsc(r rune, ecma bool) string {
	if ecma {
		if r <= 0xFFFF {
			return fmt.Sprintf(`\u%04X`, r)
		}
		return string(r)
	}
	return fmt.Sprintf(`\x{%X}`, r)
}

// classChar prints one class member; everything that could be syntax is hex-escaped.
func classChar(r rune, ecma bool) string {
	if (r >= 'a' && r <= 'z') || (r >= 'A' && r <= 'Z') || (r >= '0' && r <= '9') || r == '_' || r == ' ' ||
		r == ',' || r == ';' || r == '!' || r == '@' || r == '%' || r == '&' || r == '=' || r == '~' || r == '<' || r == '>' || r == '/' || r == '"' || r == '\'' {
		return string(r)
	}
	return hexEsc(r, ecma)
}

// Print renders the class in [...] syntax. xmode has no influence inside classes.
func (e *Expr) Print(ecma bool) string {
	var sb strings.Builder
	sb.WriteByte('[')
	if e.Neg {
		sb.WriteByte('^')
	}
	for _, it := range e.Items {
		switch it.Kind {
		case Char:
			sb.WriteString(classChar(it.Lo, ecma))
		case Range:
			sb.WriteString(classChar(it.Lo, ecma))
			sb.WriteByte('-')
			sb.WriteString(classChar(it.Hi, ecma))
		case Short:
			sb.WriteString(`\` + it.Name)
		case Prop:
			if it.Neg {
				sb.WriteString(`\P{` + it.Name + `}`)
			} else {
				sb.WriteString(`\p{` + it.Name + `}`)
			}
		case Posix:
			if it.Neg {
				sb.WriteString(`[:^` + it.Name + `:]`)
			} else {
				sb.WriteString(`[:` + it.Name + `:]`)
			}
		}
	}
	if e.Sub != nil {
		sb.WriteByte('-')
		sb.WriteString(e.Sub.Print(ecma))
	}
	sb.WriteByte(']')
	return sb.String()
}

// ---------- evaluation

// IsWord is the documented \w of the .NET dialect: L, Mn, Nd, Pc plus ZWJ/ZWNJ.
func IsWord(r rune) bool {
	return unicode.In(r, unicode.L, unicode.Mn, unicode.Nd, unicode.Pc) || r == 0x200D || r == 0x200C
}

// IsASCIIWord is \w of RE2 / ECMAScript.
func IsASCIIWord(r rune) bool {
	return r == '_' || (r >= '0' && r <= '9') || (r >= 'a' && r <= 'z') || (r >= 'A' && r <= 'Z')
}

func ecmaSpace(r rune) bool {
	switch {
	case r >= 0x09 && r <= 0x0d, r == 0x20, r == 0xa0, r == 0x1680, r >= 0x2000 && r <= 0x200a,
		r == 0x2028, r == 0x2029, r == 0x202f, r == 0x205f, r == 0x3000, r == 0xfeff:
		return true
	}
	return false
}

// ShortIn evaluates a shorthand letter (d w s D W S).
func ShortIn(letter byte, r rune, o Opts) bool {
	var v bool
	switch letter | 0x20 {
	case 'd':
		if o.RE2 || o.ECMA {
			v = r >= '0' && r <= '9'
		} else {
			v = unicode.Is(unicode.Nd, r)
		}
	case 'w':
		if o.RE2 || o.ECMA {
			v = IsASCIIWord(r)
		} else {
			v = IsWord(r)
		}
	case 's':
		if o.ECMA {
			v = ecmaSpace(r)
		} else if o.RE2 {
			v = r == '\t' || r == '\n' || r == '\f' || r == '\r' || r == ' '
		} else {
			v = unicode.IsSpace(r)
		}
	}
	if letter < 'a' {
		return !v
	}
	return v
}

// PosixIn evaluates an RE2 POSIX class name on r (ASCII definitions of RE2).
func PosixIn(name string, r rune) (in bool, ok bool) {
	if r < 0 || r > 0x7f {
		switch name {
		case "alnum", "alpha", "ascii", "blank", "cntrl", "digit", "graph", "lower", "print", "punct", "space", "upper", "word", "xdigit":
			return false, true
		}
		return false, false
	}
	c := byte(r)
	isUpper := c >= 'A' && c <= 'Z'
	isLower := c >= 'a' && c <= 'z'
	isDigit := c >= '0' && c <= '9'
	switch name {
	case "alnum":
		return isUpper || isLower || isDigit, true
	case "alpha":
		return isUpper || isLower, true
	case "ascii":
		return true, true
	case "blank":
		return c == ' ' || c == '\t', true
	case "cntrl":
		return c < 0x20 || c == 0x7f, true
	case "digit":
		return isDigit, true
	case "graph":
		return c >= '!' && c <= '~', true
	case "lower":
		return isLower, true
	case "print":
		return c >= ' ' && c <= '~', true
	case "punct":
		return (c >= '!' && c <= '/') || (c >= ':' && c <= '@') || (c >= '[' && c <= '`') || (c >= '{' && c <= '~'), true
	case "space":
		return c == '\t' || c == '\n' || c == '\v' || c == '\f' || c == '\r' || c == ' ', true
	case "upper":
		return isUpper, true
	case "word":
		return isUpper || isLower || isDigit || c == '_', true
	case "xdigit":
		return isDigit || (c >= 'A' && c <= 'F') || (c >= 'a' && c <= 'f'), true
	}
	return false, false
}

// PropTable resolves a \p{...} name to a Go range table. Only names the harness
// generates are resolved (general categories, scripts, a few properties).
func PropTable(name string) *unicode.RangeTable {
	if t, ok := unicode.Categories[name]; ok {
		return t
	}
	if t, ok := unicode.Scripts[name]; ok {
		return t
	}
	if t, ok := unicode.Properties[name]; ok {
		return t
	}
	return nil
}

// FoldEq reports whether a and b are in the same simple case-fold orbit.
func FoldEq(a, b rune) bool {
	if a == b {
		return true
	}
	for c := unicode.SimpleFold(a); c != a; c = unicode.SimpleFold(c) {
		if c == b {
			return true
		}
	}
	return false
}

func rangeInFold(lo, hi, r rune) bool {
	if r >= lo && r <= hi {
		return true
	}
	for c := unicode.SimpleFold(r); c != r; c = unicode.SimpleFold(c) {
		if c >= lo && c <= hi {
			return true
		}
	}
	return false
}

func itemIn(it Item, r rune, o Opts) bool {
	switch it.Kind {
	case Char:
		if o.I {
			return FoldEq(it.Lo, r)
		}
		return r == it.Lo
	case Range:
		if o.I {
			return rangeInFold(it.Lo, it.Hi, r)
		}
		return r >= it.Lo && r <= it.Hi
	case Short:
		return ShortIn(it.Name[0], r, o)
	case Prop:
		var v bool
		if o.I && (it.Name == "Lu" || it.Name == "Ll" || it.Name == "Lt") {
			// documented: under IgnoreCase {Ll} {Lu} {Lt} all match the three cased categories
			v = unicode.In(r, unicode.Lu, unicode.Ll, unicode.Lt)
		} else {
			v = unicode.Is(PropTable(it.Name), r)
		}
		return v != it.Neg
	case Posix:
		v, _ := PosixIn(it.Name, r)
		if o.I && !v {
			// POSIX classes are ranges; under IgnoreCase they are case-expanded like ranges
			for c := unicode.SimpleFold(r); c != r; c = unicode.SimpleFold(c) {
				if w, _ := PosixIn(it.Name, c); w {
					v = true
				}
			}
		}
		return v != it.Neg
	}
	return false
}

// In is the set-algebra meaning of the class: (∪ items) xor Neg, minus Sub.
func In(r rune, e *Expr, o Opts) bool {
	v := false
	for _, it := range e.Items {
		if itemIn(it, r, o) {
			v = true
			break
		}
	}
	if e.Neg {
		v = !v
	}
	if v && e.Sub != nil {
		v = !In(r, e.Sub, o)
	}
	return v
}

// Endpoints returns every range endpoint / char of the expression (for domain building).
func (e *Expr) Endpoints() []rune {
	var out []rune
	for _, it := range e.Items {
		switch it.Kind {
		case Char:
			out = append(out, it.Lo)
		case Range:
			out = append(out, it.Lo, it.Hi)
		}
	}
	if e.Sub != nil {
		out = append(out, e.Sub.Endpoints()...)
	}
	return out
}

// Kinds returns the set of item kinds used (for the non-triviality rule).
func (e *Expr) Kinds() map[ItemKind]bool {
	m := map[ItemKind]bool{}
	for _, it := range e.Items {
		m[it.Kind] = true
	}
	return m
}

// Depth is the subtraction nesting depth.
func (e *Expr) Depth() int {
	if e.Sub == nil {
		return 0
	}
	return 1 + e.Sub.Depth()
}
