// Package h is the per-process part of the verification harness: statistics
// (evaluations, labels, distinct non-trivial cases, samples), replay-file output
// and the replay runner. The driver (/verif/check) merges the per-shard files.
package h

import (
	"encoding/json"
	"fmt"
	"hash/fnv"
	"os"
	"sort"
	"strconv"
	"strings"
	"sync"
	"testing"
	"time"
)

const bitmapBits = 1 << 26 // linear-counting bitmap for distinct non-trivial cases (collisions undercount)

type stats struct {
	mu         sync.Mutex
	Property   string             `json:"property"`
	Rule       string             `json:"rule"`
	Evals      int64              `json:"evaluations"`
	NonTrivial int64              `json:"nontrivial_evaluations"`
	Labels     map[string]int64   `json:"labels"`
	Excluded   map[string]int64   `json:"excluded_known"`
	Discards   map[string]int64   `json:"discards"`
	Floors     map[string]float64 `json:"floors"`
	Ceilings   map[string]float64 `json:"ceilings"`
	Assume     []string           `json:"assumptions"`
	Samples    []json.RawMessage  `json:"samples"`
	Violations int                `json:"violations"`
	bitmap     []uint64
	sampleSeen int64
}

var S = &stats{Labels: map[string]int64{}, Excluded: map[string]int64{}, Discards: map[string]int64{}, Floors: map[string]float64{}, Ceilings: map[string]float64{}}

// Tier is "quick" or "thorough" (VERIF_TIER); Shard is the shard index.
var (
	Tier  = envOr("VERIF_TIER", "quick")
	Shard = envInt("VERIF_SHARD", 0)
	Seed  = envInt("VERIF_SEED", 1)
)

func envOr(k, d string) string {
	if v := os.Getenv(k); v != "" {
		return v
	}
	return d
}

func envInt(k string, d int) int {
	if v, err := strconv.Atoi(os.Getenv(k)); err == nil {
		return v
	}
	return d
}

// Thorough reports whether the thorough tier is running.
func Thorough() bool { return Tier == "thorough" }

// Setup declares the property, the non-triviality rule, label floors (fraction of
// evaluations) and assumptions.
func Setup(prop, rule string, floors map[string]float64, assumptions ...string) {
	S.Property = prop
	S.Rule = rule
	for k, v := range floors {
		S.Floors[k] = v
	}
	S.Assume = append(S.Assume, assumptions...)
}

// Ceiling declares a maximum fraction (of evaluations) for a discard reason or label;
// exceeding it makes the run inconclusive (generator health), never a violation.
func Ceiling(label string, frac float64) { S.Ceilings[label] = frac }

// Main runs the tests and writes the statistics file named by VERIF_STATS.
func Main(m *testing.M) {
	code := m.Run()
	if p := os.Getenv("VERIF_STATS"); p != "" {
		S.write(p)
	}
	os.Exit(code)
}

func (s *stats) write(path string) {
	s.mu.Lock()
	defer s.mu.Unlock()
	b, _ := json.Marshal(s)
	_ = os.WriteFile(path, b, 0o644)
	if s.bitmap != nil {
		raw := make([]byte, len(s.bitmap)*8)
		for i, w := range s.bitmap {
			for k := 0; k < 8; k++ {
				raw[i*8+k] = byte(w >> (8 * k))
			}
		}
		_ = os.WriteFile(path+".bitmap", raw, 0o644)
	}
}

// Eval counts one evaluation of the property (one generated case / comparison unit).
func Eval() { S.mu.Lock(); S.Evals++; S.mu.Unlock() }

// EvalN counts n evaluations.
func EvalN(n int) { S.mu.Lock(); S.Evals += int64(n); S.mu.Unlock() }

// Label counts a classification label.
func Label(l string) { S.mu.Lock(); S.Labels[l]++; S.mu.Unlock() }

// LabelIf counts the label when cond holds.
func LabelIf(cond bool, l string) {
	if cond {
		Label(l)
	}
}

// LabelN adds n to a label.
func LabelN(l string, n int) { S.mu.Lock(); S.Labels[l] += int64(n); S.mu.Unlock() }

// Excluded counts a case skipped because it lies inside a known finding's exclusion predicate.
func Excluded(key string) { S.mu.Lock(); S.Excluded[key]++; S.mu.Unlock() }

// Discard counts a discarded case (budget exhausted, engine timeout, compile rejected...).
func Discard(why string) { S.mu.Lock(); S.Discards[why]++; S.mu.Unlock() }

// NonTrivial records a non-trivial case identified by key (hashed; distinctness is
// measured over the hash) and offers sample() to the sample reservoir.
func NonTrivial(key string, sample func() any) {
	hh := fnv.New64a()
	hh.Write([]byte(key))
	v := hh.Sum64()
	// mix
	v ^= v >> 33
	v *= 0xff51afd7ed558ccd
	v ^= v >> 33
	bit := v % bitmapBits
	S.mu.Lock()
	defer S.mu.Unlock()
	S.NonTrivial++
	if S.bitmap == nil {
		S.bitmap = make([]uint64, bitmapBits/64)
	}
	fresh := S.bitmap[bit/64]&(1<<(bit%64)) == 0
	S.bitmap[bit/64] |= 1 << (bit % 64)
	if !fresh || sample == nil {
		return
	}
	S.sampleSeen++
	const keep = 8
	// deterministic reservoir: keep first few, then replace by hash-driven slot
	if len(S.Samples) < keep {
		if b, err := json.Marshal(sample()); err == nil {
			S.Samples = append(S.Samples, b)
		}
		return
	}
	if (v>>7)%uint64(S.sampleSeen) < keep {
		if b, err := json.Marshal(sample()); err == nil {
			S.Samples[(v>>17)%keep] = b
		}
	}
}

// Current records the case that is about to run in <VERIF_REPLAY_OUT>.current, so that a
// process-killing failure (out of memory, stack overflow, fatal error) still leaves a replayable
// case behind. Only used by checks whose oracle includes "does not crash".
func Current(c any) {
	path := os.Getenv("VERIF_REPLAY_OUT")
	if path == "" {
		return
	}
	cb, err := json.Marshal(c)
	if err != nil {
		return
	}
	rb, _ := json.Marshal(Replay{Property: S.Property, Message: "process died while running this case", Case: cb})
	_ = os.WriteFile(path+".current", rb, 0o644)
}

// Budget returns a function that reports whether d has elapsed since Budget was called. Checks
// use it to abandon a pathologically slow generated case (counted as a discard, never a verdict).
func Budget(d time.Duration) func() bool {
	t0 := time.Now()
	return func() bool { return time.Since(t0) > d }
}

// Replay is the on-disk form of a failing (or saved) case.
type Replay struct {
	Property string          `json:"property"`
	Message  string          `json:"message,omitempty"`
	Case     json.RawMessage `json:"case"`
}

var (
	failMu   sync.Mutex
	bestSize = -1
)

// Fataler is implemented by *testing.T and *rapid.T.
type Fataler interface {
	Fatalf(format string, args ...any)
}

// Violation writes the case as a replay file (VERIF_REPLAY_OUT; the smallest failing
// case seen by this process wins, so after shrinking the file holds the minimal case)
// and fails the test.
func Violation(t Fataler, c any, format string, args ...any) {
	msg := fmt.Sprintf(format, args...)
	// A match timeout is a permitted outcome of every call (the harness gives each Regexp a safety timeout, and
	// on a loaded machine the engine's clock goroutine can be starved long enough for a quick match to see its
	// deadline passed). Only C14, whose subject is the timing itself, reports on timeouts.
	if S.Property != "C14" && strings.Contains(msg, "match timeout after") {
		Discard("timeout-in-comparison")
		return
	}
	if path := os.Getenv("VERIF_REPLAY_OUT"); path != "" {
		cb, err := json.Marshal(c)
		if err == nil {
			failMu.Lock()
			if bestSize < 0 || len(cb) <= bestSize {
				bestSize = len(cb)
				rb, _ := json.MarshalIndent(Replay{Property: S.Property, Message: msg, Case: cb}, "", " ")
				_ = os.WriteFile(path, rb, 0o644)
			}
			failMu.Unlock()
		}
	}
	S.mu.Lock()
	S.Violations++
	S.mu.Unlock()
	t.Fatalf("%s", msg)
}

// RunReplay runs check on every file listed in VERIF_REPLAY_FILES (':'-separated) and
// prints one line per file: "REPLAY <path> PASS" or "REPLAY <path> FAIL <message>".
// It never fails the test itself; the driver interprets the lines.
func RunReplay[C any](t *testing.T, check func(c C) error) {
	files := strings.Split(os.Getenv("VERIF_REPLAY_FILES"), ":")
	sort.Strings(files)
	for _, f := range files {
		if f == "" {
			continue
		}
		b, err := os.ReadFile(f)
		if err != nil {
			fmt.Printf("REPLAY %s ERROR %v\n", f, err)
			continue
		}
		var r Replay
		if err := json.Unmarshal(b, &r); err != nil {
			fmt.Printf("REPLAY %s ERROR %v\n", f, err)
			continue
		}
		var c C
		if err := json.Unmarshal(r.Case, &c); err != nil {
			fmt.Printf("REPLAY %s ERROR %v\n", f, err)
			continue
		}
		err = safely(func() error { return check(c) })
		if err != nil && S.Property != "C14" && strings.Contains(err.Error(), "match timeout after") {
			// a timeout is a permitted outcome (see Violation); retry once, then accept
			err = safely(func() error { return check(c) })
			if err != nil && strings.Contains(err.Error(), "match timeout after") {
				err = nil
			}
		}
		if err != nil {
			fmt.Printf("REPLAY %s FAIL %s\n", f, oneLine(err.Error()))
		} else {
			fmt.Printf("REPLAY %s PASS\n", f)
		}
	}
}

func safely(f func() error) (err error) {
	defer func() {
		if r := recover(); r != nil {
			err = fmt.Errorf("panic: %v", r)
		}
	}()
	return f()
}

// Safely runs f and converts a panic into an error.
func Safely(f func() error) error { return safely(f) }

func oneLine(s string) string {
	s = strings.ReplaceAll(s, "\n", " | ")
	if len(s) > 600 {
		s = s[:600] + "..."
	}
	return s
}

// IsTimeoutPanic reports whether err is a recovered panic caused by a match timeout (the adapter
// in compat/ panics with the match error; a timeout is a permitted error, hence a discard).
func IsTimeoutPanic(err error) bool {
	return err != nil && strings.Contains(err.Error(), "panic: match timeout")
}

// Q quotes runes for messages.
func Q(r []rune) string { return strconv.QuoteToASCII(string(r)) }
