// Package repl is the harness's own implementation of the documented substitution
// grammar ($n, ${n}, ${name}, $$, $&, $`, $', $+, $_) and of the Replace/Split fold.
// It is written from the documentation, not from the engine's replacement parser.
package repl

import (
	"math"
	"strings"

	"verif/internal/canon"
	"verif/internal/cls"
)

type TokKind int

const (
	Lit TokKind = iota
	Group
	Whole // $& / $0 handled as Group 0
	Left  // $`
	Right // $'
	Last  // $+
	Input // $_
)

type Tok struct {
	K   TokKind
	S   string
	Num int
}

// Groups describes the regexp's capture groups.
type Groups struct {
	Nums  []int          // group numbers in Groups() order (index = slot)
	Names map[string]int // name -> number (includes numeric names)
	// ECMA selects the ECMAScript rule for an un-braced $ followed by digits: the reference is the
	// longest prefix of the digit run that names an existing group, the remaining digits are text.
	ECMA bool
}

func (g Groups) hasNum(n int) bool {
	for _, x := range g.Nums {
		if x == n {
			return true
		}
	}
	return false
}

func isDigit(r rune) bool { return r >= '0' && r <= '9' }

// Parse tokenises a replacement string (g.ECMA selects the ECMAScript $nn rule): a reference that does not name an
// existing group is literal text, '$' at the end is literal.
func Parse(rep string, g Groups) []Tok {
	r := []rune(rep)
	var toks []Tok
	lit := func(s string) {
		if len(toks) > 0 && toks[len(toks)-1].K == Lit {
			toks[len(toks)-1].S += s
			return
		}
		toks = append(toks, Tok{K: Lit, S: s})
	}
	for i := 0; i < len(r); {
		if r[i] != '$' {
			lit(string(r[i]))
			i++
			continue
		}
		if i+1 >= len(r) {
			lit("$")
			i++
			continue
		}
		ch := r[i+1]
		pos := i + 1
		angled := false
		if ch == '{' && i+2 < len(r) {
			angled = true
			pos = i + 2
			ch = r[pos]
		}
		switch {
		case isDigit(ch):
			j := pos
			v := 0
			for j < len(r) && isDigit(r[j]) {
				d := int(r[j] - '0')
				if v > (math.MaxInt32-d)/10 {
					v = math.MaxInt32
				} else {
					v = v*10 + d
				}
				j++
			}
			if !angled && g.ECMA {
				best, bestEnd, w := -1, pos, 0
				for k := pos; k < j; k++ {
					d := int(r[k] - '0')
					if w > (math.MaxInt32-d)/10 {
						break
					}
					w = w*10 + d
					if g.hasNum(w) {
						best, bestEnd = w, k+1
					}
				}
				if best >= 0 {
					toks = append(toks, Tok{K: Group, Num: best})
					i = bestEnd
					continue
				}
			} else if !angled {
				if g.hasNum(v) {
					toks = append(toks, Tok{K: Group, Num: v})
					i = j
					continue
				}
			} else if j < len(r) && r[j] == '}' && g.hasNum(v) {
				toks = append(toks, Tok{K: Group, Num: v})
				i = j + 1
				continue
			}
		case angled && cls.IsWord(ch):
			j := pos
			for j < len(r) && cls.IsWord(r[j]) {
				j++
			}
			name := string(r[pos:j])
			if j < len(r) && r[j] == '}' {
				if n, ok := g.Names[name]; ok {
					toks = append(toks, Tok{K: Group, Num: n})
					i = j + 1
					continue
				}
			}
		case !angled:
			k := TokKind(-1)
			switch ch {
			case '$':
				lit("$")
				i += 2
				continue
			case '&':
				toks = append(toks, Tok{K: Group, Num: 0})
				i += 2
				continue
			case '`':
				k = Left
			case '\'':
				k = Right
			case '+':
				k = Last
			case '_':
				k = Input
			}
			if k >= 0 {
				toks = append(toks, Tok{K: k})
				i += 2
				continue
			}
		}
		lit("$")
		i++
	}
	return toks
}

// HasRef reports whether the token list contains a group or special reference.
func HasRef(toks []Tok) bool {
	for _, t := range toks {
		if t.K != Lit {
			return true
		}
	}
	return false
}

// Expand resolves the tokens against one match (canonical form) of input r.
func Expand(toks []Tok, m canon.Result, r []rune) string {
	var sb strings.Builder
	groupText := func(slot int) string {
		if slot < 0 || slot >= len(m.Groups) || len(m.Groups[slot]) == 0 {
			return ""
		}
		c := m.Groups[slot][len(m.Groups[slot])-1]
		return string(r[c.I : c.I+c.L])
	}
	for _, t := range toks {
		switch t.K {
		case Lit:
			sb.WriteString(t.S)
		case Group:
			for slot, n := range m.Nums {
				if n == t.Num {
					sb.WriteString(groupText(slot))
					break
				}
			}
		case Left:
			sb.WriteString(string(r[:m.I]))
		case Right:
			sb.WriteString(string(r[m.I+m.L:]))
		case Last:
			sb.WriteString(groupText(len(m.Groups) - 1))
		case Input:
			sb.WriteString(string(r))
		}
	}
	return sb.String()
}

// Fold rebuilds the output: kept text plus expand(match) for every match, in text order.
// matches may be in either scan order; they must be disjoint.
func Fold(r []rune, matches []canon.Result, expand func(canon.Result) string) string {
	asc := append([]canon.Result(nil), matches...)
	for i := 1; i < len(asc); i++ {
		for j := i; j > 0 && (asc[j].I < asc[j-1].I || (asc[j].I == asc[j-1].I && asc[j].L < asc[j-1].L)); j-- {
			asc[j], asc[j-1] = asc[j-1], asc[j]
		}
	}
	var sb strings.Builder
	prev := 0
	for _, m := range asc {
		sb.WriteString(string(r[prev:m.I]))
		sb.WriteString(expand(m))
		prev = m.I + m.L
	}
	sb.WriteString(string(r[prev:]))
	return sb.String()
}
