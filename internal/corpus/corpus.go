// Package corpus holds pattern literals harvested from the repository's own tests and
// corpora (see cmd/harvest). Every entry compiles with default options.
package corpus

import (
	_ "embed"
	"encoding/json"
)

//go:embed patterns.json
var raw []byte

type Entry struct {
	P   string `json:"p"`
	Src string `json:"src"`
}

// Patterns is the harvested list, sorted.
var Patterns []Entry

func init() {
	if err := json.Unmarshal(raw, &Patterns); err != nil {
		panic(err)
	}
}
