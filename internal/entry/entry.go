// Package entry compares every public entry point of one compiled Regexp on one input
// (the oracle of C02; the structural part is the C08 predicate).
package entry

import (
	"fmt"
	"reflect"
	"sort"
	"strings"

	regexp2 "github.com/dlclark/regexp2/v2"
	"github.com/dlclark/regexp2/v2/compat"

	"verif/internal/canon"
)

// Stats is what the caller wants to know for labels.
type Stats struct {
	Matched   bool
	Matches   int
	Captures  int // captures of groups other than 0 in the first match
	Timeout   bool
	MaxSpanHi int // end (rune index) of first match
}

type invalidReader struct {
	s string
	i int
}

// ReadRune decodes like utf8.DecodeRuneInString (invalid byte: RuneError, width 1).
func (r *invalidReader) ReadRune() (rune, int, error) {
	if r.i >= len(r.s) {
		return 0, 0, errEOF
	}
	c, w := decode(r.s[r.i:])
	r.i += w
	return c, w, nil
}

func errc(err error) string { return canon.ErrClass(err) }

// Check runs all legs; it returns a descriptive error on the first disagreement.
func Check(re *regexp2.Regexp, s string, ns []int) (Stats, error) {
	var st Stats
	r := canon.Decode(s)
	offs := canon.ByteOffsets(s)
	n := len(r)
	rtl := re.RightToLeft()

	// ---- boolean and single-match calls
	bs, e1 := re.MatchString(s)
	br, e2 := re.MatchRunes(r)
	ms, e3 := re.FindStringMatch(s)
	mr, e4 := re.FindRunesMatch(r)
	for _, e := range []error{e1, e2, e3, e4} {
		if e != nil && errc(e) == "timeout" {
			st.Timeout = true
			return st, nil
		}
	}
	if errc(e1) != errc(e2) || errc(e1) != errc(e3) || errc(e1) != errc(e4) {
		return st, fmt.Errorf("error classes differ: MatchString %q MatchRunes %q FindStringMatch %q FindRunesMatch %q", errc(e1), errc(e2), errc(e3), errc(e4))
	}
	if e1 != nil {
		return st, nil // same (non-timeout) error everywhere, e.g. stack limit: nothing more to compare
	}
	if err := canon.Validate(re, ms, r, &s); err != nil {
		return st, fmt.Errorf("FindStringMatch: malformed match: %v", err)
	}
	if err := canon.Validate(re, mr, r, nil); err != nil {
		return st, fmt.Errorf("FindRunesMatch: malformed match: %v", err)
	}
	cs, cr := canon.FromMatch(re, ms), canon.FromMatch(re, mr)
	if !canon.Equal(cs, cr) {
		return st, fmt.Errorf("FindStringMatch %s, FindRunesMatch %s", cs, cr)
	}
	if bs != cr.Matched || br != cr.Matched {
		return st, fmt.Errorf("MatchString=%v MatchRunes=%v but find calls give %s", bs, br, cr)
	}
	st.Matched = cr.Matched
	if cr.Matched {
		st.MaxSpanHi = cr.I + cr.L
		for i, g := range cr.Groups {
			if i > 0 {
				st.Captures += len(g)
			}
		}
	}

	// ---- StartingAt variants at every aligned offset
	for at := 0; at <= n; at++ {
		a, ea := re.FindStringMatchStartingAt(s, offs[at])
		b, eb := re.FindRunesMatchStartingAt(r, at)
		if errc(ea) == "timeout" || errc(eb) == "timeout" {
			st.Timeout = true
			return st, nil
		}
		if errc(ea) != errc(eb) {
			return st, fmt.Errorf("StartingAt(%d): string error %q, runes error %q", at, errc(ea), errc(eb))
		}
		if ea != nil {
			continue
		}
		if err := canon.Validate(re, a, r, &s); err != nil {
			return st, fmt.Errorf("FindStringMatchStartingAt(%d): malformed match: %v", offs[at], err)
		}
		ca, cb := canon.FromMatch(re, a), canon.FromMatch(re, b)
		if !canon.Equal(ca, cb) {
			return st, fmt.Errorf("FindStringMatchStartingAt(byte %d) %s, FindRunesMatchStartingAt(%d) %s", offs[at], ca, at, cb)
		}
	}

	// ---- the FindNextMatch sequence (from the rune call) and from the string call
	var seq []canon.Result
	var seqM []*regexp2.Match
	{
		m, ms2 := mr, ms
		for steps := 0; m != nil; steps++ {
			if steps > n+2 {
				return st, fmt.Errorf("FindNextMatch does not terminate (%d steps on %d runes)", steps, n)
			}
			seq = append(seq, canon.FromMatch(re, m))
			seqM = append(seqM, m)
			nm, err := re.FindNextMatch(m)
			nms, errs := re.FindNextMatch(ms2)
			if errc(err) == "timeout" || errc(errs) == "timeout" {
				st.Timeout = true
				return st, nil
			}
			if errc(err) != errc(errs) {
				return st, fmt.Errorf("FindNextMatch error classes differ between string and rune iteration: %q vs %q", errc(errs), errc(err))
			}
			if err != nil {
				return st, nil
			}
			if err := canon.Validate(re, nms, r, &s); err != nil {
				return st, fmt.Errorf("FindNextMatch (string iteration): malformed match: %v", err)
			}
			if a, b := canon.FromMatch(re, nms), canon.FromMatch(re, nm); !canon.Equal(a, b) {
				return st, fmt.Errorf("FindNextMatch step %d: string iteration %s, rune iteration %s", steps+1, a, b)
			}
			m, ms2 = nm, nms
		}
	}
	st.Matches = len(seq)

	// ---- find-all index calls
	var kept []canon.Result
	for i, m := range seq {
		if i > 0 && m.L == 0 {
			p := seq[i-1]
			if m.I == p.I+p.L || m.I == p.I {
				continue
			}
		}
		kept = append(kept, m)
	}
	cre := compat.Wrap(re)
	for _, k := range ns {
		var wantR, wantB [][]int
		for i, m := range kept {
			if k >= 0 && i >= k {
				break
			}
			wantR = append(wantR, []int{m.I, m.I + m.L})
			wantB = append(wantB, []int{offs[m.I], offs[m.I+m.L]})
		}
		gr, err := re.FindAllRunesIndex(r, k)
		if err != nil {
			return st, fmt.Errorf("FindAllRunesIndex(n=%d): %v", k, err)
		}
		gb, err := re.FindAllStringIndex(s, k)
		if err != nil {
			return st, fmt.Errorf("FindAllStringIndex(n=%d): %v", k, err)
		}
		if !sameIdx(gr, wantR) {
			return st, fmt.Errorf("FindAllRunesIndex(n=%d) = %v, FindNextMatch iteration gives %v", k, gr, wantR)
		}
		if !sameIdx(gb, wantB) {
			return st, fmt.Errorf("FindAllStringIndex(n=%d) = %v, iteration mapped to bytes gives %v", k, gb, wantB)
		}
		// adapter
		if got := cre.FindAllIndex([]byte(s), k); !sameIdx(got, wantB) {
			return st, fmt.Errorf("compat.FindAllIndex(n=%d) = %v, want %v", k, got, wantB)
		}
		if got := cre.FindAllStringIndex(s, k); !sameIdx(got, wantB) {
			return st, fmt.Errorf("compat.FindAllStringIndex(n=%d) = %v, want %v", k, got, wantB)
		}
		gsm := cre.FindAllStringSubmatchIndex(s, k)
		if len(gsm) != len(wantB) {
			return st, fmt.Errorf("compat.FindAllStringSubmatchIndex(n=%d): %d matches, want %d", k, len(gsm), len(wantB))
		}
		ki := 0
		for i := range gsm {
			m := kept[ki]
			ki++
			if want := submatchIndex(m, offs); !reflect.DeepEqual(gsm[i], want) {
				return st, fmt.Errorf("compat.FindAllStringSubmatchIndex(n=%d)[%d] = %v, want %v", k, i, gsm[i], want)
			}
		}
		gstr := cre.FindAllString(s, k)
		if len(gstr) != len(wantB) {
			return st, fmt.Errorf("compat.FindAllString(n=%d): %d matches, want %d", k, len(gstr), len(wantB))
		}
		for i := range gstr {
			// like regexp, the adapter returns the bytes of the input (invalid UTF-8 is not replaced)
			if want := s[offs[kept[i].I]:offs[kept[i].I+kept[i].L]]; gstr[i] != want {
				return st, fmt.Errorf("compat.FindAllString(n=%d)[%d] = %q, want %q", k, i, gstr[i], want)
			}
		}
	}

	// ---- adapter single-match calls
	if cre.MatchString(s) != st.Matched || cre.Match([]byte(s)) != st.Matched || cre.MatchReader(strings.NewReader(s)) != st.Matched {
		return st, fmt.Errorf("compat Match* disagree with find calls (%v)", st.Matched)
	}
	var wantIdx, wantSub []int
	if st.Matched {
		wantIdx = []int{offs[cr.I], offs[cr.I+cr.L]}
		wantSub = submatchIndex(cr, offs)
	}
	if got := cre.FindStringIndex(s); !reflect.DeepEqual(got, wantIdx) {
		return st, fmt.Errorf("compat.FindStringIndex = %v, want %v", got, wantIdx)
	}
	if got := cre.FindIndex([]byte(s)); !reflect.DeepEqual(got, wantIdx) {
		return st, fmt.Errorf("compat.FindIndex = %v, want %v", got, wantIdx)
	}
	if got := cre.FindReaderIndex(&invalidReader{s: s}); !reflect.DeepEqual(got, wantIdx) {
		return st, fmt.Errorf("compat.FindReaderIndex = %v, want %v", got, wantIdx)
	}
	if got := cre.FindStringSubmatchIndex(s); !reflect.DeepEqual(got, wantSub) {
		return st, fmt.Errorf("compat.FindStringSubmatchIndex = %v, want %v", got, wantSub)
	}
	if got := cre.FindSubmatchIndex([]byte(s)); !reflect.DeepEqual(got, wantSub) {
		return st, fmt.Errorf("compat.FindSubmatchIndex = %v, want %v", got, wantSub)
	}
	if got := cre.FindReaderSubmatchIndex(&invalidReader{s: s}); !reflect.DeepEqual(got, wantSub) {
		return st, fmt.Errorf("compat.FindReaderSubmatchIndex = %v, want %v", got, wantSub)
	}

	// ---- the match enumeration inside ReplaceFunc, Replace and Split
	var seen []canon.Result
	out, err := re.ReplaceFunc(s, func(m regexp2.Match) string {
		seen = append(seen, canon.FromMatch(re, &m))
		return "\x01" + m.String() + "\x02"
	}, -1, -1)
	if err != nil {
		if errc(err) == "timeout" {
			st.Timeout = true
			return st, nil
		}
		return st, fmt.Errorf("ReplaceFunc: %v", err)
	}
	if len(seen) != len(seq) {
		return st, fmt.Errorf("ReplaceFunc's evaluator saw %d matches, FindNextMatch iteration has %d", len(seen), len(seq))
	}
	for i := range seen {
		if !canon.Equal(seen[i], seq[i]) {
			return st, fmt.Errorf("ReplaceFunc's evaluator match %d is %s, iteration gives %s", i, seen[i], seq[i])
		}
	}
	asc := append([]canon.Result(nil), seq...)
	sort.SliceStable(asc, func(i, j int) bool {
		return asc[i].I < asc[j].I || (asc[i].I == asc[j].I && asc[i].I+asc[i].L < asc[j].I+asc[j].L)
	})
	_ = rtl
	var sb strings.Builder
	prev := 0
	for _, m := range asc {
		sb.WriteString(string(r[prev:m.I]))
		sb.WriteString("\x01" + string(r[m.I:m.I+m.L]) + "\x02")
		prev = m.I + m.L
	}
	sb.WriteString(string(r[prev:]))
	// note: invalid bytes become U+FFFD in outputs (the engine works on runes); compare in that form
	norm := func(x string) string { return string([]rune(x)) }
	if norm(out) != sb.String() {
		return st, fmt.Errorf("ReplaceFunc output %q, fold of the match sequence %q", out, sb.String())
	}
	id, err := re.Replace(s, "$&", -1, -1)
	if err != nil && errc(err) != "timeout" {
		return st, fmt.Errorf("Replace($&): %v", err)
	}
	if err == nil && norm(id) != string(r) {
		return st, fmt.Errorf("Replace with $& = %q, input %q", id, string(r))
	}
	wrapped, err := re.Replace(s, "\x01$&\x02", -1, -1)
	if err == nil && norm(wrapped) != sb.String() {
		return st, fmt.Errorf("Replace(\\x01$&\\x02) = %q, fold of the match sequence %q", wrapped, sb.String())
	}
	// a template naming every group, issued right after a bool-only call on the same Regexp
	// (the bool-only entry points may run a program without captures; Replace must not inherit it)
	if len(cr.Nums) > 0 || len(seq) > 0 {
		var nums []int
		if len(seq) > 0 {
			nums = seq[0].Nums
		}
		var tpl strings.Builder
		tpl.WriteString("\x01")
		for _, gn := range nums {
			fmt.Fprintf(&tpl, "${%d}\x03", gn)
		}
		tpl.WriteString("\x02")
		if _, err := re.MatchString(s); err == nil {
			gotG, err := re.Replace(s, tpl.String(), -1, -1)
			if err == nil {
				var wb strings.Builder
				prev = 0
				for _, m := range asc {
					wb.WriteString(string(r[prev:m.I]))
					wb.WriteString("\x01")
					for gi := range m.Nums {
						if g := m.Groups[gi]; len(g) > 0 {
							c := g[len(g)-1]
							wb.WriteString(string(r[c.I : c.I+c.L]))
						}
						wb.WriteString("\x03")
					}
					wb.WriteString("\x02")
					prev = m.I + m.L
				}
				wb.WriteString(string(r[prev:]))
				if norm(gotG) != wb.String() {
					return st, fmt.Errorf("MatchString then Replace(%q) = %q, fold of the match sequence with every group's last capture %q", tpl.String(), gotG, wb.String())
				}
			} else if errc(err) != "timeout" {
				return st, fmt.Errorf("Replace(%q): %v", tpl.String(), err)
			}
		}
	}
	parts, err := re.Split(s, -1)
	if err != nil && errc(err) != "timeout" {
		return st, fmt.Errorf("Split: %v", err)
	}
	if err == nil {
		var want []string
		prev = 0
		for _, m := range asc {
			want = append(want, string(r[prev:m.I]))
			for gi := 1; gi < len(m.Groups); gi++ {
				g := m.Groups[gi]
				if len(g) == 0 {
					want = append(want, "")
				} else {
					c := g[len(g)-1]
					want = append(want, string(r[c.I:c.I+c.L]))
				}
			}
			prev = m.I + m.L
		}
		if len(asc) == 0 {
			want = []string{string(r)}
			for i := range parts {
				parts[i] = norm(parts[i])
			}
		} else {
			want = append(want, string(r[prev:]))
		}
		if !reflect.DeepEqual(parts, want) {
			return st, fmt.Errorf("Split = %q, fold of the match sequence %q", parts, want)
		}
	}
	return st, nil
}

func submatchIndex(m canon.Result, offs []int) []int {
	out := make([]int, 0, 2*len(m.Groups))
	for _, g := range m.Groups {
		if len(g) == 0 {
			out = append(out, -1, -1)
			continue
		}
		c := g[len(g)-1]
		out = append(out, offs[c.I], offs[c.I+c.L])
	}
	return out
}

func sameIdx(a, b [][]int) bool {
	if len(a) == 0 && len(b) == 0 {
		return true
	}
	return reflect.DeepEqual(a, b)
}
