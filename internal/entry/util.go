package entry

import (
	"io"
	"unicode/utf8"
)

var errEOF = io.EOF

func decode(s string) (rune, int) { return utf8.DecodeRuneInString(s) }
