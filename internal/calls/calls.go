// Package calls describes public entry-point calls as data (for the history and concurrency
// checks C12 / C11): a pool of Regexp specifications, call descriptors, execution to a canonical
// string, and input construction across the buffer-pool size classes.
package calls

import (
	"fmt"
	"strings"
	"time"

	regexp2 "github.com/dlclark/regexp2/v2"
	"github.com/dlclark/regexp2/v2/compat"

	"verif/internal/canon"
)

// ReSpec is a compilable Regexp description.
type ReSpec struct {
	Name      string
	Pattern   string
	Opts      regexp2.RegexOptions
	Stack     int // 0 = default
	CacheSize int // 0 = default
	TimeoutMs int // 0 = none
}

// Pool is the fixed set of shared Regexps the histories draw from.
var Pool = []ReSpec{
	{Name: "balancing", Pattern: `(?:(?<o>\()|(?<c-o>\))|[^()#])+(?(o)(?!))`},
	{Name: "quickcode", Pattern: `(a)(b)?c|(\d)x`},
	{Name: "backref", Pattern: `(\w+) \1`},
	{Name: "stack64", Pattern: `(?:(a)|b)*c`, Stack: 64},
	{Name: "timeout", Pattern: `(a+)+$`, TimeoutMs: 30},
	{Name: "rtl", Pattern: `\d+(?<x>[a-z])`, Opts: regexp2.RightToLeft},
	{Name: "cache2", Pattern: `(\w)(\d)`, CacheSize: 2},
	{Name: "lookbehind-ic", Pattern: `(?<=b)a+(?<t>é)?`, Opts: regexp2.IgnoreCase},
	{Name: "multiline", Pattern: `^(\w+)$`, Opts: regexp2.Multiline},
	// a limit that doubling from the initial 64 slots cannot reach: the last growth step is capped
	{Name: "stack65", Pattern: `^(?:ab)*c`, Stack: 65},
	// a left-to-right pattern whose lookbehind runs right-to-left opcodes, with a limit that long inputs hit
	// while such an opcode is executing: per-call interpreter flags must be re-initialised by the next call
	{Name: "lookbehind100", Pattern: `\w(?<=^(?:z[ab]*|(\w))+)`, Stack: 100},
}

// Compile builds a fresh Regexp for the spec.
func (s ReSpec) Compile() *regexp2.Regexp {
	opts := []regexp2.CompileOption{s.Opts}
	if s.Stack != 0 {
		opts = append(opts, regexp2.OptionMaxBacktrackingStackSize(s.Stack))
	}
	if s.CacheSize != 0 {
		opts = append(opts, regexp2.OptionMaxCachedReplacerDataEntries(s.CacheSize))
	}
	re := regexp2.MustCompile(s.Pattern, opts...)
	if s.TimeoutMs > 0 {
		re.MatchTimeout = time.Duration(s.TimeoutMs) * time.Millisecond
	}
	return re
}

// Replacements is larger than any replacement cache used in the pool.
var Replacements = []string{"", "x", "$1", "[$2]", "${x}", "$&$&", "$`", "$'", "$+", "$_", "<$1|$2>", "$$", "${t}-", "${o}${c}", "é$1", "$10", "${1}${2}${1}", "0"}

// Call is one entry-point invocation.
type Call struct {
	Re    int    `json:"re"`    // index into the history's shared Regexps
	Kind  string `json:"kind"`  // entry point
	Core  string `json:"core"`  // pattern-relevant text
	Class int    `json:"class"` // 0 = short; 1,2,3 = padded with filler to ~1K / 4K / 16K runes
	Pad   int    `json:"pad"`   // exact padding fine-tuning (0..200)
	Tail  bool   `json:"tail"`  // core goes after the filler instead of before it
	Rep   int    `json:"rep"`   // index into Replacements
	N     int    `json:"n"`     // count / n / startAt selector
}

// Kinds lists the entry points.
var Kinds = []string{"MatchString", "MatchRunes", "FindStringMatch", "FindRunesMatch", "FindStringMatchStartingAt", "Iterate", "FindAllStringIndex",
	"FindAllRunesIndex", "Replace", "ReplaceFunc", "Split", "CompatFindAllStringSubmatchIndex", "CompatFindStringSubmatch"}

// Cores are short pattern-relevant texts: matching, failing, catastrophic, limit-hitting.
var Cores = []string{"", "ac", "abc", "1x", "ab ab", "hello hello world", "(()())", "(()", "())(", "ababababababababababababababababababababababababababababc",
	"abababababababababababababababababababababababababababababab", "aaaaaaaaaaaaaaaaaaaaaaaaaaaaaaaaaaaaaab", "aaa", "12a 345b", "a1 b2 c3 d4", "baaé", "BAAÉ ba", "one\ntwo\n3", "é1", "no match here!"}

// Input builds the input string of a call.
func (c Call) Input() string {
	if c.Class == 0 {
		return c.Core
	}
	n := []int{0, 900, 4000, 16300}[c.Class] + c.Pad
	fill := strings.Repeat("#", n)
	if c.Tail {
		return fill + c.Core
	}
	return c.Core + fill
}

func descMatch(re *regexp2.Regexp, m *regexp2.Match, err error) string {
	return canon.Desc(re, m, err)
}

// Exec runs the call on re and renders the outcome canonically (results and error classes).
func Exec(re *regexp2.Regexp, c Call) (out string) {
	defer func() {
		if r := recover(); r != nil {
			if e, ok := r.(error); ok {
				out = "PANIC-error:" + canon.ErrClass(e)
				if len(out) > 200 {
					out = out[:200]
				}
				return
			}
			out = fmt.Sprintf("PANIC: %.200v", r)
		}
	}()
	s := c.Input()
	rep := Replacements[c.Rep%len(Replacements)]
	errs := func(err error) string {
		if err != nil {
			return "error:" + canon.ErrClass(err)
		}
		return ""
	}
	switch c.Kind {
	case "MatchString":
		ok, err := re.MatchString(s)
		return fmt.Sprint(ok, errs(err))
	case "MatchRunes":
		ok, err := re.MatchRunes([]rune(s))
		return fmt.Sprint(ok, errs(err))
	case "FindStringMatch":
		m, err := re.FindStringMatch(s)
		return descMatch(re, m, err)
	case "FindRunesMatch":
		m, err := re.FindRunesMatch([]rune(s))
		return descMatch(re, m, err)
	case "FindStringMatchStartingAt":
		at := c.N % (len(s) + 1)
		if at < 0 {
			at = 0
		}
		for at > 0 && at < len(s) && s[at]&0xC0 == 0x80 {
			at--
		}
		m, err := re.FindStringMatchStartingAt(s, at)
		return descMatch(re, m, err)
	case "Iterate":
		m, err := re.FindStringMatch(s)
		var sb strings.Builder
		for i := 0; i < 4 && m != nil && err == nil; i++ {
			sb.WriteString(descMatch(re, m, nil) + ";")
			m, err = re.FindNextMatch(m)
		}
		return sb.String() + errs(err)
	case "FindAllStringIndex":
		v, err := re.FindAllStringIndex(s, c.N%4-1)
		return fmt.Sprint(v, errs(err))
	case "FindAllRunesIndex":
		v, err := re.FindAllRunesIndex([]rune(s), c.N%4-1)
		return fmt.Sprint(v, errs(err))
	case "Replace":
		v, err := re.Replace(s, rep, -1, c.N%4-1)
		return fmt.Sprintf("%q%s", v, errs(err))
	case "ReplaceFunc":
		v, err := re.ReplaceFunc(s, func(m regexp2.Match) string { return "<" + m.String() + ">" }, -1, c.N%4-1)
		return fmt.Sprintf("%q%s", v, errs(err))
	case "Split":
		v, err := re.Split(s, c.N%4-1)
		return fmt.Sprintf("%q%s", v, errs(err))
	case "CompatFindAllStringSubmatchIndex":
		return fmt.Sprint(compat.Wrap(re).FindAllStringSubmatchIndex(s, c.N%4-1))
	case "CompatFindStringSubmatch":
		return fmt.Sprintf("%q", compat.Wrap(re).FindStringSubmatch(s))
	}
	return "unknown kind"
}

// IsTimeoutish reports whether an outcome mentions a timeout (scheduling-sensitive).
func IsTimeoutish(s string) bool {
	return strings.Contains(s, "timeout")
}
