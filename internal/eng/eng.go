// Package eng holds serialisable compile specifications and small helpers around regexp2.
package eng

import (
	"time"

	regexp2 "github.com/dlclark/regexp2/v2"
)

// Spec is everything Compile needs, in replayable form.
type Spec struct {
	Pattern      string `json:"pattern"`
	Options      int32  `json:"options"`
	CodeGen      bool   `json:"codegen,omitempty"`
	NoBitmap     bool   `json:"nobitmap,omitempty"`
	CaptureOrder bool   `json:"captureorder,omitempty"`
	StackLimit   *int   `json:"stacklimit,omitempty"`
}

func (s Spec) opts() []regexp2.CompileOption {
	o := []regexp2.CompileOption{regexp2.RegexOptions(s.Options)}
	if s.CodeGen {
		o = append(o, regexp2.OptionIsCodeGen())
	}
	if s.NoBitmap {
		o = append(o, regexp2.OptionDisableCharClassASCIIBitmap())
	}
	if s.CaptureOrder {
		o = append(o, regexp2.OptionMaintainCaptureOrder())
	}
	if s.StackLimit != nil {
		o = append(o, regexp2.OptionMaxBacktrackingStackSize(*s.StackLimit))
	}
	return o
}

// Compile compiles the spec with a generous match timeout as a guard against
// catastrophic generated patterns (a timeout is a discard, never a verdict).
func (s Spec) Compile() (*regexp2.Regexp, error) {
	re, err := regexp2.Compile(s.Pattern, s.opts()...)
	if err != nil {
		return nil, err
	}
	re.MatchTimeout = 400 * time.Millisecond
	return re, nil
}

func (s Spec) RTL() bool { return regexp2.RegexOptions(s.Options)&regexp2.RightToLeft != 0 }

// OptString renders option bits.
func OptString(o int32) string {
	names := []struct {
		b regexp2.RegexOptions
		n string
	}{{regexp2.IgnoreCase, "i"}, {regexp2.Multiline, "m"}, {regexp2.ExplicitCapture, "n"}, {regexp2.Singleline, "s"},
		{regexp2.IgnorePatternWhitespace, "x"}, {regexp2.RightToLeft, "r"}, {regexp2.ECMAScript, "e"}, {regexp2.RE2, "RE2"}, {regexp2.Unicode, "u"}}
	s := ""
	for _, n := range names {
		if regexp2.RegexOptions(o)&n.b != 0 {
			s += n.n
		}
	}
	return s
}
