// Package canon turns regexp2 matches into a canonical, comparable form, checks
// the structural well-formedness of a match (the C08 predicate, reused by every
// harness) and holds the independent byte-offset model.
package canon

import (
	"fmt"
	"strings"
	"unicode/utf8"

	regexp2 "github.com/dlclark/regexp2/v2"
)

type Span struct{ I, L int }

// Result is a match in rune units with every group's ordered capture list.
type Result struct {
	Matched bool     `json:"matched"`
	I       int      `json:"i"`
	L       int      `json:"l"`
	Nums    []int    `json:"nums,omitempty"`   // group numbers, parallel to Groups
	Groups  [][]Span `json:"groups,omitempty"` // per group (group 0 first)
}

// FromMatch extracts the canonical form (nil match = not matched).
func FromMatch(re *regexp2.Regexp, m *regexp2.Match) Result {
	if m == nil {
		return Result{}
	}
	r := Result{Matched: true, I: m.RuneIndex, L: m.RuneLength}
	nums := re.GetGroupNumbers()
	gs := m.Groups()
	for i, g := range gs {
		n := i
		if i < len(nums) {
			n = nums[i]
		}
		r.Nums = append(r.Nums, n)
		caps := make([]Span, 0, len(g.Captures))
		for _, c := range g.Captures {
			caps = append(caps, Span{c.RuneIndex, c.RuneLength})
		}
		r.Groups = append(r.Groups, caps)
	}
	return r
}

func (r Result) String() string {
	if !r.Matched {
		return "nomatch"
	}
	var sb strings.Builder
	fmt.Fprintf(&sb, "(%d,%d)", r.I, r.L)
	for i, g := range r.Groups {
		if i == 0 {
			continue
		}
		n := i
		if i < len(r.Nums) {
			n = r.Nums[i]
		}
		fmt.Fprintf(&sb, " %d[", n)
		for _, c := range g {
			fmt.Fprintf(&sb, "(%d,%d)", c.I, c.L)
		}
		sb.WriteString("]")
	}
	return sb.String()
}

// Equal compares two canonical results completely.
func Equal(a, b Result) bool { return a.String() == b.String() }

// Desc describes a (match, error) pair.
func Desc(re *regexp2.Regexp, m *regexp2.Match, err error) string {
	if err != nil {
		return "error:" + ErrClass(err)
	}
	return FromMatch(re, m).String()
}

// ErrClass maps an error to a stable class name.
func ErrClass(err error) string {
	if err == nil {
		return ""
	}
	s := err.Error()
	switch {
	case err == regexp2.ErrBacktrackingStackLimit:
		return "stacklimit"
	case strings.HasPrefix(s, "match timeout"):
		return "timeout"
	case strings.Contains(s, "startAt"):
		return "startAt"
	case strings.Contains(s, "ount too small"):
		return "count"
	}
	return "other:" + s
}

// ByteOffsets is the independent byte model: offsets[i] is the byte index of rune i
// of s, decoding with utf8.DecodeRuneInString (an invalid byte is one rune of one byte);
// offsets[len] = len(s).
func ByteOffsets(s string) []int {
	var out []int
	for i := 0; i < len(s); {
		out = append(out, i)
		_, w := utf8.DecodeRuneInString(s[i:])
		i += w
	}
	return append(out, len(s))
}

// Decode is the rune view of a string under the same model.
func Decode(s string) []rune {
	var out []rune
	for i := 0; i < len(s); {
		r, w := utf8.DecodeRuneInString(s[i:])
		out = append(out, r)
		i += w
	}
	return out
}

func runesEq(a, b []rune) bool {
	if len(a) != len(b) {
		return false
	}
	for i := range a {
		if a[i] != b[i] {
			return false
		}
	}
	return true
}

// Validate is the structural well-formedness predicate of C08. runes is the input in
// rune form; if str != nil the match came from a string entry point and ByteRange is
// compared with the byte model of *str; otherwise (rune entry point) ByteRange is only
// compared with string(runes) offsets when every rune is a valid scalar value.
func Validate(re *regexp2.Regexp, m *regexp2.Match, runes []rune, str *string) error {
	if m == nil {
		return nil
	}
	n := len(runes)
	var offs []int
	if str != nil {
		offs = ByteOffsets(*str)
		if len(offs) != n+1 {
			return fmt.Errorf("harness: rune count mismatch %d vs %d", len(offs)-1, n)
		}
	} else {
		valid := true
		for _, r := range runes {
			if !utf8.ValidRune(r) {
				valid = false
				break
			}
		}
		if valid {
			offs = make([]int, 0, n+1)
			b := 0
			for _, r := range runes {
				offs = append(offs, b)
				b += utf8.RuneLen(r)
			}
			offs = append(offs, b)
		}
	}
	checkCap := func(what string, c *regexp2.Capture) error {
		if c.RuneIndex < 0 || c.RuneLength < 0 || c.RuneIndex+c.RuneLength > n {
			return fmt.Errorf("%s: span (%d,%d) outside input of %d runes", what, c.RuneIndex, c.RuneLength, n)
		}
		want := runes[c.RuneIndex : c.RuneIndex+c.RuneLength]
		if got := c.Runes(); !runesEq(got, want) {
			return fmt.Errorf("%s: Runes() = %q, addressed slice = %q", what, string(got), string(want))
		}
		if got := c.String(); got != string(want) {
			return fmt.Errorf("%s: String() = %q, addressed slice = %q", what, got, string(want))
		}
		if offs != nil {
			bi, bl := c.ByteRange()
			wi, wl := offs[c.RuneIndex], offs[c.RuneIndex+c.RuneLength]-offs[c.RuneIndex]
			if bi != wi || bl != wl {
				return fmt.Errorf("%s: ByteRange() = (%d,%d), byte model = (%d,%d) for rune span (%d,%d)", what, bi, bl, wi, wl, c.RuneIndex, c.RuneLength)
			}
		}
		return nil
	}
	gs := m.Groups()
	if len(gs) == 0 {
		return fmt.Errorf("no groups")
	}
	if len(gs) != m.GroupCount() {
		return fmt.Errorf("Groups() has %d entries, GroupCount() = %d", len(gs), m.GroupCount())
	}
	g0 := gs[0]
	if len(g0.Captures) != 1 {
		return fmt.Errorf("group 0 has %d captures", len(g0.Captures))
	}
	if g0.Captures[0].RuneIndex != m.RuneIndex || g0.Captures[0].RuneLength != m.RuneLength {
		return fmt.Errorf("group 0 capture (%d,%d) != match (%d,%d)", g0.Captures[0].RuneIndex, g0.Captures[0].RuneLength, m.RuneIndex, m.RuneLength)
	}
	if g0.RuneIndex != m.RuneIndex || g0.RuneLength != m.RuneLength {
		return fmt.Errorf("group 0 embedded capture differs from match")
	}
	if err := checkCap("match", &m.Capture); err != nil {
		return err
	}
	for i := range gs {
		g := &gs[i]
		if len(g.Captures) == 0 {
			if g.RuneIndex != 0 || g.RuneLength != 0 {
				return fmt.Errorf("group %d has no captures but embedded capture (%d,%d)", i, g.RuneIndex, g.RuneLength)
			}
			continue
		}
		last := g.Captures[len(g.Captures)-1]
		if g.RuneIndex != last.RuneIndex || g.RuneLength != last.RuneLength {
			return fmt.Errorf("group %d embedded capture (%d,%d) != last capture (%d,%d)", i, g.RuneIndex, g.RuneLength, last.RuneIndex, last.RuneLength)
		}
		if err := checkCap(fmt.Sprintf("group %d", i), &g.Capture); err != nil {
			return err
		}
		for j := range g.Captures {
			if err := checkCap(fmt.Sprintf("group %d capture %d", i, j), &g.Captures[j]); err != nil {
				return err
			}
		}
	}
	return nil
}
