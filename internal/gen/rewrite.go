package gen

import (
	"fmt"
	"pgregory.net/rapid"

	"verif/internal/ast"
	"verif/internal/cls"
)

var rwLetters = []rune("abcab1 ")

func (s *state) rwChar(t *rapid.T) rune { return rapid.SampledFrom(rwLetters).Draw(t, "rwch") }

func (s *state) rwSet(t *rapid.T) *ast.Node {
	switch rapid.IntRange(0, 6).Draw(t, "rwset") {
	case 0:
		return ast.Lit(s.rwChar(t))
	case 1:
		return ast.Dot()
	case 2:
		return &ast.Node{K: ast.KShort, S: rapid.SampledFrom([]string{"d", "w", "s", "D", "W", "S"}).Draw(t, "sh")}
	case 3:
		return ast.Class(&cls.Expr{Neg: true, Items: []cls.Item{{Kind: cls.Char, Lo: s.rwChar(t)}}})
	case 4:
		return ast.Class(&cls.Expr{Items: []cls.Item{{Kind: cls.Range, Lo: 'a', Hi: 'c'}}})
	default:
		return ast.Class(&cls.Expr{Items: []cls.Item{{Kind: cls.Char, Lo: s.rwChar(t)}, {Kind: cls.Char, Lo: s.rwChar(t)}}})
	}
}

func (s *state) rwLoop(t *rapid.T) *ast.Node {
	q := ast.Quant(s.rwSet(t), 0, -1, false)
	switch rapid.IntRange(0, 5).Draw(t, "rwq") {
	case 0:
		q.Min = 1
	case 1:
		q.Max = 1
	case 2:
		q.Min, q.Max = 1, 3
	case 3:
		q.Min, q.Max = 2, -1
	}
	q.Lazy = rapid.IntRange(0, 2).Draw(t, "rwlazy") == 0
	return q
}

func (s *state) rwStr(t *rapid.T, min, max int) *ast.Node {
	n := rapid.IntRange(min, max).Draw(t, "rwlen")
	r := make([]rune, n)
	for i := range r {
		r[i] = s.rwChar(t)
	}
	return ast.Lit(r...)
}

func (s *state) rwAlt(t *rapid.T) *ast.Node {
	a := ast.Alt()
	n := rapid.IntRange(2, 5).Draw(t, "rwaltn")
	prefix := s.rwStr(t, 1, 2)
	sharedSet := s.rwSet(t)
	for i := 0; i < n; i++ {
		switch rapid.IntRange(0, 8).Draw(t, "rwaltk") {
		case 0:
			a.Kids = append(a.Kids, ast.Empty())
		case 1, 2, 3:
			a.Kids = append(a.Kids, ast.Seq(prefix.Clone(), s.rwStr(t, 0, 2)))
		case 4:
			a.Kids = append(a.Kids, ast.Seq(s.rwSet(t), s.rwStr(t, 1, 2)))
		case 5:
			a.Kids = append(a.Kids, ast.Seq(s.rwStr(t, 1, 2), s.rwLoop(t)))
		case 6:
			// branches starting with a loop over one shared set but different counts
			lo := rapid.IntRange(0, 2).Draw(t, "rwlo")
			hi := lo + rapid.IntRange(0, 2).Draw(t, "rwhi")
			if hi == 0 {
				hi = 1
			}
			a.Kids = append(a.Kids, ast.Seq(ast.Quant(sharedSet.Clone(), lo, hi, false), s.rwStr(t, 1, 2)))
		default:
			a.Kids = append(a.Kids, s.rwStr(t, 1, 3))
		}
	}
	return a
}

// Rewrite draws a pattern biased towards the shapes the tree rewrites look for.
func Rewrite(t *rapid.T, cfg Cfg) *ast.Node {
	s := &state{cfg: cfg}
	var piece func(d int) *ast.Node
	piece = func(d int) *ast.Node {
		switch rapid.IntRange(0, 16).Draw(t, "rwpiece") {
		case 16: // a loop, then an optional single set (or an optional set loop), then something that may overlap the loop
			q := ast.Quant(s.rwSet(t), 0, 1, rapid.IntRange(0, 2).Draw(t, "rwoptlazy") == 0)
			if rapid.Bool().Draw(t, "rwoptloop") {
				q = ast.Quant(ast.Group(ast.GNon, ast.Seq(s.rwStr(t, 1, 1), s.rwLoop(t))), 0, -1, false)
			}
			if rapid.Bool().Draw(t, "rwoptatomic") {
				// an atomic optional keeps what it took: only the loop before it can make room
				q = ast.Group(ast.GAtomic, q)
			}
			if rapid.Bool().Draw(t, "rwoptlit") {
				return ast.Seq(s.rwLoop(t), q, s.rwStr(t, 1, 2))
			}
			return ast.Seq(s.rwLoop(t), q, piece(d-1))
		case 15:
			// inside a lookbehind the pieces run right to left: a literal of two or more characters
			// followed (in the text) by a loop that overlaps the literal's last but not its first character
			c1, c2 := s.rwChar(t), s.rwChar(t)
			for c2 == c1 {
				c2 = 'q'
			}
			loop := ast.Quant(ast.Class(&cls.Expr{Items: []cls.Item{{Kind: cls.Char, Lo: c2}, {Kind: cls.Char, Lo: s.rwChar(t)}}}), 0, -1, rapid.IntRange(0, 3).Draw(t, "rwlblazy") == 0)
			s.quantBounds(t, loop)
			k := rapid.SampledFrom([]ast.GKind{ast.GLookbehind, ast.GLookbehind, ast.GNegLookbehind}).Draw(t, "rwlbkind")
			return ast.Seq(ast.Group(k, ast.Seq(ast.Lit(c1, c2), loop)), s.rwStr(t, 1, 1))
		case 14:
			// balancing group whose body ends in a choice that decides whether the popped group holds a
			// capture: leaving the group can fail and backtrack into the body, so the body is not "at the end"
			if !s.cfg.Full {
				return s.rwSet(t)
			}
			inner := ast.Group(ast.GCap, s.rwSet(t))
			var body *ast.Node
			switch rapid.IntRange(0, 4).Draw(t, "rwbal") {
			case 0:
				body = ast.Alt(ast.Empty(), ast.Seq(inner, s.rwStr(t, 0, 1)))
			case 1:
				body = ast.Alt(s.rwStr(t, 1, 1), ast.Seq(inner, s.rwStr(t, 0, 1)))
			case 2:
				body = ast.Quant(inner, 0, -1, true)
			case 3:
				body = ast.Seq(s.rwStr(t, 0, 1), ast.Quant(inner, 0, 1, true))
			default:
				body = ast.Seq(s.rwLoop(t), ast.Quant(ast.Group(ast.GNon, ast.Seq(inner, s.rwStr(t, 0, 1))), 0, 1, rapid.Bool().Draw(t, "rwballazy")))
			}
			g := ast.Group(ast.GBalance, body)
			g.S2 = fmt.Sprintf("?%d", rapid.IntRange(0, 3).Draw(t, "rwbalslot"))
			return g
		case 0, 1: // loop followed by X
			return ast.Seq(s.rwLoop(t), piece(d-1))
		case 2:
			return ast.Seq(s.rwLoop(t), s.rwLoop(t), s.rwStr(t, 0, 2))
		case 3: // alternation with shared prefixes
			return ast.Group(ast.GNon, s.rwAlt(t))
		case 4: // atomic alternation
			return ast.Group(ast.GAtomic, s.rwAlt(t))
		case 5: // nested atomic
			return ast.Group(ast.GAtomic, ast.Seq(ast.Group(ast.GAtomic, s.rwLoop(t)), piece(d-1)))
		case 6: // capture around
			g := ast.Group(ast.GCap, piece(d-1))
			return g
		case 7: // lookaround with ending loop
			if d <= 0 {
				return s.rwStr(t, 1, 2)
			}
			k := rapid.SampledFrom([]ast.GKind{ast.GLookahead, ast.GNegLookahead, ast.GLookbehind, ast.GNegLookbehind}).Draw(t, "rwlook")
			return ast.Group(k, ast.Seq(piece(d-1), s.rwLoop(t)))
		case 8: // conditional whose test ends in a loop
			if d <= 0 {
				return s.rwStr(t, 1, 2)
			}
			return &ast.Node{K: ast.KCond, Kids: []*ast.Node{ast.Group(ast.GLookahead, ast.Seq(s.rwStr(t, 0, 1), s.rwLoop(t))), piece(d - 1), piece(d - 1)}}
		case 9: // group loop ending in a loop
			if d <= 0 {
				return s.rwLoop(t)
			}
			q := ast.Quant(ast.Group(rapid.SampledFrom([]ast.GKind{ast.GNon, ast.GCap}).Draw(t, "rwg"), ast.Seq(s.rwStr(t, 1, 2), s.rwLoop(t))), 0, -1, false)
			s.quantBounds(t, q)
			return q
		case 10:
			return ast.Seq(piece(d-1), piece(d-1))
		case 11:
			if d <= 0 {
				return s.rwSet(t)
			}
			return s.node(t, 1)
		case 12:
			return ast.Seq(s.rwStr(t, 1, 3), s.rwLoop(t))
		default:
			return s.rwSet(t)
		}
	}
	root := ast.Seq(piece(2))
	if rapid.IntRange(0, 7).Draw(t, "rwleadcap") == 0 {
		// a leading capture group whose content starts with an unbounded loop, referenced later: where
		// the loop started decides what the reference must repeat, so start positions inside the
		// run of loop characters are not interchangeable
		g := ast.Group(ast.GNumbered, ast.Seq(s.rwLoop(t), s.rwStr(t, 0, 1)))
		g.Num = 1
		root = ast.Seq(g, s.rwStr(t, 0, 1), &ast.Node{K: ast.KBackref, Num: 1}, root)
	}
	if rapid.IntRange(0, 2).Draw(t, "rwtail") != 0 {
		root.Kids = append(root.Kids, piece(1))
	}
	if rapid.IntRange(0, 5).Draw(t, "rwloopend") == 0 {
		// a loop (often over a set containing newline) directly before an end anchor, possibly followed by more
		root.Kids = append(root.Kids, ast.Group(rapid.SampledFrom([]ast.GKind{ast.GNon, ast.GCap}).Draw(t, "rwleg"), s.rwLoop(t)),
			ast.Anchor(rapid.SampledFrom([]string{"$", `\Z`, `\z`}).Draw(t, "rwleanchor")))
		if rapid.Bool().Draw(t, "rwafter") {
			root.Kids = append(root.Kids, ast.Lit('\n'))
		}
	} else if rapid.IntRange(0, 4).Draw(t, "rwend") == 0 {
		root.Kids = append(root.Kids, ast.Anchor(rapid.SampledFrom([]string{"$", `\b`, `\z`, `\B`}).Draw(t, "rwanchor")))
	}
	return root
}
