// Package gen holds the rapid generators: pattern ASTs (fragments F-core, F-full),
// classes, option sets, and inputs (pattern-derived alphabets, bounded-exhaustive
// enumeration, pattern-directed strings, byte-level strings).
package gen

import (
	"fmt"
	"strings"
	"unicode"

	"pgregory.net/rapid"

	"verif/internal/ast"
	"verif/internal/cls"
)

// Cfg selects the fragment.
type Cfg struct {
	Depth         int
	Full          bool // F-full: nullable loop bodies, nested repeaters, quantified anchors, balancing, props, numbered groups, comments, (?!)
	NoLookbehind  bool
	NoLook        bool
	NoBackref     bool
	NoCond        bool
	NoBareCond    bool // no bare-expression conditional tests (required in right-to-left context)
	NoAnchors     bool
	Inline        string // inline option letters that may be generated (e.g. "imsn"); "" = none
	CaseSafe      bool   // letters restricted to simple upper/lower pairs (needed whenever IgnoreCase may be on)
	NamedRefsOnly bool   // backreferences / group tests only to named groups
	Letters       []rune // literal alphabet override
	NoClassSub    bool
	NoProps       bool
	RE2Common     bool // F-re2: only constructs shared with Go's regexp
	Magic         bool // occasionally use repeat counts next to the size constants of the analyses (19..22, 31..33, 63..65)
}

var (
	// PairLetters are letters whose simple case-fold orbit is exactly an upper/lower pair.
	PairLetters []rune
	baseLetters = []rune("abcxyzABXZ019 _-\n")
	wideLetters = []rune{'é', 'É', 'λ', 'Λ', 'ж', 'Ж', '日', 0x0301, 0x1F600, 'ÿ'}
)

func orbit(r rune) int {
	n := 1
	for c := unicode.SimpleFold(r); c != r; c = unicode.SimpleFold(c) {
		n++
	}
	return n
}

// IsPairLetter: cased letter with a two-element fold orbit.
func IsPairLetter(r rune) bool { return orbit(r) == 2 }

// CaseNeutralOrPair: rune is either uncased (orbit 1) or a plain pair.
func CaseNeutralOrPair(r rune) bool { o := orbit(r); return o == 1 || o == 2 }

func init() {
	for _, r := range []rune("abcdefghijlmnopqrtuvwxyzABCDEFGHIJLMNOPQRTUVWXYZéÉñÑüÜλΛπΠωΩжЖяЯюЮÿŸ" +
		// the first and last cased letters of the Latin-1, Greek and Cyrillic blocks and the neighbours of the
		// holes in them (U+00D7, U+00F7): boundary values of range-based case helpers
		"ÀàÞþÖöØøΑαΡρΣАаЯяЀѐЏџ") {
		if orbit(r) == 2 {
			PairLetters = append(PairLetters, r)
		}
	}
}

type state struct {
	cfg    Cfg
	nNamed int
	names  []string
}

func (s *state) letters() []rune {
	if s.cfg.Letters != nil {
		return s.cfg.Letters
	}
	return nil
}

func (s *state) letter(t *rapid.T) rune {
	if l := s.letters(); l != nil {
		return rapid.SampledFrom(l).Draw(t, "lit")
	}
	k := rapid.IntRange(0, 9).Draw(t, "litk")
	if k < 7 {
		return rapid.SampledFrom(baseLetters).Draw(t, "lit")
	}
	if s.cfg.CaseSafe {
		r := rapid.SampledFrom(append(append([]rune{}, PairLetters...), '日', 0x0301, 0x1F600)).Draw(t, "lit")
		return r
	}
	return rapid.SampledFrom(wideLetters).Draw(t, "lit")
}

var shorthands = []string{"d", "w", "s", "D", "W", "S"}
var propNames = []string{"L", "Lu", "Ll", "N", "Nd", "P", "Zs", "Greek", "Latin", "Cyrillic", "Han", "Mn", "Sm"}
var posixNames = []string{"alnum", "alpha", "ascii", "blank", "cntrl", "digit", "graph", "lower", "print", "punct", "space", "upper", "word", "xdigit"}

// ClassExpr draws a bracket class. depth bounds subtraction nesting.
func ClassExpr(t *rapid.T, cfg Cfg, depth int) *cls.Expr {
	s := &state{cfg: cfg}
	return s.class(t, depth)
}

func (s *state) class(t *rapid.T, depth int) *cls.Expr {
	e := &cls.Expr{Neg: rapid.IntRange(0, 3).Draw(t, "cneg") == 0}
	n := rapid.IntRange(1, 3).Draw(t, "citems")
	for i := 0; i < n; i++ {
		switch k := rapid.IntRange(0, 9).Draw(t, "ckind"); {
		case k <= 1:
			e.Items = append(e.Items, cls.Item{Kind: cls.Short, Name: rapid.SampledFrom(shorthands).Draw(t, "short")})
		case k <= 4:
			lo := s.letter(t)
			for lo == '\n' || lo == 0x0301 {
				lo = 'a'
			}
			span := rune(rapid.IntRange(1, 4).Draw(t, "span"))
			hi := lo + span
			if s.cfg.CaseSafe {
				// keep the whole range inside letters with plain pairs / uncased runes
				for c := lo; c <= hi; c++ {
					if !CaseNeutralOrPair(c) {
						hi = c - 1
						break
					}
				}
				if hi < lo {
					hi = lo
				}
			}
			if hi == lo {
				e.Items = append(e.Items, cls.Item{Kind: cls.Char, Lo: lo})
			} else {
				e.Items = append(e.Items, cls.Item{Kind: cls.Range, Lo: lo, Hi: hi})
			}
		case k == 5 && s.cfg.Full && !s.cfg.NoProps:
			e.Items = append(e.Items, cls.Item{Kind: cls.Prop, Name: rapid.SampledFrom(propNames).Draw(t, "prop"), Neg: rapid.Bool().Draw(t, "pneg")})
		default:
			e.Items = append(e.Items, cls.Item{Kind: cls.Char, Lo: s.letter(t)})
		}
	}
	if depth > 0 && !s.cfg.NoClassSub && rapid.IntRange(0, 5).Draw(t, "csub") == 0 {
		e.Sub = s.class(t, depth-1)
	}
	return e
}

var anchorsAll = []string{"^", "$", `\A`, `\z`, `\Z`, `\b`, `\B`, `\G`}

func (s *state) atom(t *rapid.T) *ast.Node {
	switch k := rapid.IntRange(0, 13).Draw(t, "atom"); {
	case k == 0:
		return ast.Dot()
	case k <= 2:
		return ast.Class(s.class(t, 1))
	case k == 3 && !s.cfg.NoAnchors:
		return ast.Anchor(rapid.SampledFrom(anchorsAll).Draw(t, "anchor"))
	case k == 4 && !s.cfg.NoBackref:
		return &ast.Node{K: ast.KBackref, Num: -1 - rapid.IntRange(0, 5).Draw(t, "refslot")}
	case k == 5:
		return &ast.Node{K: ast.KShort, S: rapid.SampledFrom(shorthands).Draw(t, "short")}
	case k == 6:
		n := rapid.IntRange(2, 3).Draw(t, "multilen")
		r := make([]rune, n)
		for i := range r {
			r[i] = s.letter(t)
		}
		return ast.Lit(r...)
	case k == 7 && s.cfg.Full && !s.cfg.NoProps:
		return &ast.Node{K: ast.KProp, S: rapid.SampledFrom(propNames).Draw(t, "prop"), Neg: rapid.Bool().Draw(t, "pneg")}
	default:
		return ast.Lit(s.letter(t))
	}
}

// magicCounts sit next to size constants of the analyses (loop expansion 20, prefix cut-offs 32,
// repeater/multi limit 64): sizes nobody aims at are not covered, so the generators aim at them.
var magicCounts = []int{19, 20, 21, 22, 31, 32, 33, 63, 64, 65}

func (s *state) quantBounds(t *rapid.T, q *ast.Node) {
	if s.cfg.Magic && rapid.IntRange(0, 11).Draw(t, "magic") == 0 {
		m := rapid.SampledFrom(magicCounts).Draw(t, "magiccount")
		switch rapid.IntRange(0, 2).Draw(t, "magickind") {
		case 0:
			q.Min, q.Max = m, m
		case 1:
			q.Min, q.Max = m, -1
		default:
			q.Min, q.Max = m, m+2
		}
		q.Lazy = rapid.IntRange(0, 3).Draw(t, "lazy") == 0
		return
	}
	switch rapid.IntRange(0, 8).Draw(t, "qkind") {
	case 0:
		q.Min, q.Max = 0, -1
	case 1:
		q.Min, q.Max = 1, -1
	case 2:
		q.Min, q.Max = 0, 1
	case 3:
		q.Min, q.Max = 2, 2
	case 4:
		q.Min, q.Max = 1, 3
	case 5:
		q.Min, q.Max = 2, -1
	case 6:
		q.Min, q.Max = 0, 2
	case 7:
		q.Min, q.Max = 1, 2
	default:
		q.Min, q.Max = 3, 4
	}
	q.Lazy = rapid.IntRange(0, 2).Draw(t, "lazy") == 0
}

func (s *state) node(t *rapid.T, d int) *ast.Node {
	if d <= 0 {
		return s.atom(t)
	}
	switch k := rapid.IntRange(0, 20).Draw(t, "node"); {
	case k == 20 && strings.Contains(s.cfg.Inline, "n") && !s.cfg.NoCond && !s.cfg.NoBareCond:
		// an ExplicitCapture scope holding a conditional whose condition is in plain parentheses, then a plain
		// capturing group outside the scope: parser state set inside the scope must not leak past its end
		set := ast.Class(&cls.Expr{Items: []cls.Item{{Kind: cls.Char, Lo: s.letter(t)}, {Kind: cls.Char, Lo: 'q'}}})
		cond := &ast.Node{K: ast.KCond, S2: "plain", Kids: []*ast.Node{ast.Group(ast.GNon, set), s.node(t, d-1), nil}}
		if rapid.Bool().Draw(t, "scopeno") {
			cond.Kids[2] = s.atom(t)
		}
		scope := &ast.Node{K: ast.KOpt, S: "n", Kids: []*ast.Node{ast.Seq(s.atom(t), cond)}}
		if rapid.Bool().Draw(t, "scopeswitch") {
			scope = ast.Group(ast.GNon, ast.Seq(&ast.Node{K: ast.KOpt, S: "n"}, s.atom(t), cond))
		}
		return ast.Seq(scope, ast.Group(ast.GCap, s.node(t, d-1)))
	case k == 19:
		// a loop over one character (plain, lazy or inside an atomic group) directly followed by the same
		// character, a literal starting with it, or another loop over it: the shapes that loop coalescing merges
		ch := s.letter(t)
		for ch == '\n' || ch == 0x0301 {
			ch = 'a'
		}
		q := ast.Quant(ast.Lit(ch), 0, -1, false)
		s.quantBounds(t, q)
		var first *ast.Node = q
		if rapid.IntRange(0, 2).Draw(t, "adjatomic") == 0 {
			first = ast.Group(ast.GAtomic, q)
		}
		var next *ast.Node
		switch rapid.IntRange(0, 3).Draw(t, "adjnext") {
		case 0:
			next = ast.Lit(ch)
		case 1:
			next = ast.Lit(ch, s.letter(t))
		case 2:
			next = ast.Lit(ch, ch, s.letter(t))
		default:
			q2 := ast.Quant(ast.Lit(ch), 0, -1, false)
			s.quantBounds(t, q2)
			next = q2
		}
		return ast.Seq(first, next)
	case k <= 2:
		n := ast.Seq()
		c := rapid.IntRange(2, 3).Draw(t, "seqlen")
		for i := 0; i < c; i++ {
			n.Kids = append(n.Kids, s.node(t, d-1))
		}
		return n
	case k <= 4:
		n := ast.Alt()
		c := rapid.IntRange(2, 3).Draw(t, "altlen")
		for i := 0; i < c; i++ {
			if rapid.IntRange(0, 7).Draw(t, "emptybranch") == 0 {
				n.Kids = append(n.Kids, ast.Empty())
			} else {
				n.Kids = append(n.Kids, s.node(t, d-1))
			}
		}
		return n
	case k <= 6:
		kinds := []ast.GKind{ast.GCap, ast.GCap, ast.GNamed, ast.GNamed, ast.GNon, ast.GAtomic, ast.GAtomic}
		if !s.cfg.NoLook {
			kinds = append(kinds, ast.GLookahead, ast.GNegLookahead)
			if !s.cfg.NoLookbehind {
				kinds = append(kinds, ast.GLookbehind, ast.GNegLookbehind)
			}
		}
		if s.cfg.Full {
			kinds = append(kinds, ast.GNumbered, ast.GBalance)
		}
		gk := rapid.SampledFrom(kinds).Draw(t, "gkind")
		g := ast.Group(gk, nil)
		switch gk {
		case ast.GNamed:
			if s.cfg.Full && len(s.names) > 0 && rapid.IntRange(0, 4).Draw(t, "dupname") == 0 {
				g.S = rapid.SampledFrom(s.names).Draw(t, "name")
			} else {
				g.S = fmt.Sprintf("n%d", s.nNamed)
				s.nNamed++
				s.names = append(s.names, g.S)
			}
		case ast.GNumbered:
			g.Num = rapid.SampledFrom([]int{1, 2, 3, 5, 9, 12}).Draw(t, "gnum")
		case ast.GBalance:
			if rapid.Bool().Draw(t, "balnamed") {
				g.S = fmt.Sprintf("n%d", s.nNamed)
				s.nNamed++
				s.names = append(s.names, g.S)
			}
			g.S2 = fmt.Sprintf("?%d", rapid.IntRange(0, 5).Draw(t, "balslot"))
		}
		g.Kids[0] = s.node(t, d-1)
		return g
	case k <= 9:
		var body *ast.Node
		if s.cfg.Full && rapid.IntRange(0, 2).Draw(t, "anybody") == 0 {
			body = s.node(t, d-1)
			if body.K == ast.KOpt && len(body.Kids) == 0 {
				body = ast.Lit('a')
			}
		} else {
			for tries := 0; ; tries++ {
				body = s.node(t, d-1)
				if !ast.Nullable(body) && !ast.BareRepeater(body) {
					break
				}
				if tries >= 4 {
					body = ast.Lit(s.letter(t))
					break
				}
			}
		}
		q := ast.Quant(body, 0, -1, false)
		s.quantBounds(t, q)
		return q
	case k == 10 && !s.cfg.NoCond:
		c := &ast.Node{K: ast.KCond, Kids: []*ast.Node{nil, nil, nil}}
		switch tk := rapid.IntRange(0, 5).Draw(t, "condkind"); {
		case tk <= 1 && !s.cfg.NoBackref:
			c.Num = -1 - rapid.IntRange(0, 5).Draw(t, "refslot")
		case tk == 2 && !s.cfg.NoBareCond:
			// bare expression test; parenthesised group so that the text is unambiguous
			c.Kids[0] = ast.Group(ast.GNon, s.node(t, d-1))
			if rapid.Bool().Draw(t, "plaincond") {
				c.S2 = "plain" // printed as (?(expr)...) when the expression cannot be mistaken for a group name
			}
		default:
			lk := []ast.GKind{ast.GLookahead, ast.GNegLookahead}
			if !s.cfg.NoLookbehind {
				lk = append(lk, ast.GLookbehind, ast.GNegLookbehind)
			}
			c.Kids[0] = ast.Group(rapid.SampledFrom(lk).Draw(t, "condlook"), s.node(t, d-1))
		}
		// inline option groups are not allowed as direct children of an expression conditional
		// (a restriction inherited from .NET), so such branches are wrapped in (?:...)
		wrap := func(b *ast.Node) *ast.Node {
			if b.Has(func(x *ast.Node) bool { return x.K == ast.KOpt }) {
				return ast.Group(ast.GNon, b)
			}
			return b
		}
		c.Kids[1] = wrap(s.node(t, d-1))
		if rapid.IntRange(0, 3).Draw(t, "hasno") != 0 {
			c.Kids[2] = wrap(s.node(t, d-1))
		}
		return c
	case k == 11 && s.cfg.Inline != "":
		o := &ast.Node{K: ast.KOpt}
		l := string(s.cfg.Inline[rapid.IntRange(0, len(s.cfg.Inline)-1).Draw(t, "optletter")])
		if rapid.Bool().Draw(t, "optoff") {
			o.S2 = l
		} else {
			o.S = l
		}
		if rapid.Bool().Draw(t, "optscoped") {
			o.Kids = []*ast.Node{s.node(t, d-1)}
			return o
		}
		// a switch must sit in a sequence
		return ast.Seq(s.node(t, d-1), o, s.node(t, d-1))
	case k == 12 && s.cfg.Full:
		switch rapid.IntRange(0, 3).Draw(t, "fullextra") {
		case 0:
			return &ast.Node{K: ast.KComment, S: "c"}
		case 1:
			return ast.Group(ast.GNegLookahead, ast.Empty()) // (?!)
		case 2:
			// quantified anchor
			q := ast.Quant(ast.Anchor(rapid.SampledFrom(anchorsAll).Draw(t, "anchor")), 0, -1, false)
			s.quantBounds(t, q)
			return q
		default:
			return ast.Empty()
		}
	case k == 13 && !s.cfg.NoBackref:
		// a capture followed (somewhere later) by a reference to it
		g := ast.Group(ast.GCap, s.node(t, d-1))
		if rapid.Bool().Draw(t, "namedcap") {
			g.G = ast.GNamed
			g.S = fmt.Sprintf("n%d", s.nNamed)
			s.nNamed++
			s.names = append(s.names, g.S)
		}
		return ast.Seq(g, s.node(t, d-1), &ast.Node{K: ast.KBackref, Num: -1 - rapid.IntRange(0, 5).Draw(t, "refslot")})
	case k == 14:
		return ast.Group(ast.GAtomic, s.node(t, d-1))
	case k == 17 && s.cfg.Inline != "":
		// a group with an option switched on and off again inside it, followed by a plain capture group
		l := string(s.cfg.Inline[rapid.IntRange(0, len(s.cfg.Inline)-1).Draw(t, "optletter")])
		on, off := &ast.Node{K: ast.KOpt, S: l}, &ast.Node{K: ast.KOpt, S2: l}
		if rapid.Bool().Draw(t, "offfirst") {
			on, off = off, on
		}
		inner := ast.Seq(s.node(t, d-1), on, ast.Group(ast.GCap, s.atom(t)), off, ast.Group(ast.GCap, s.atom(t)))
		gk := rapid.SampledFrom([]ast.GKind{ast.GCap, ast.GNon, ast.GAtomic}).Draw(t, "wrapkind")
		return ast.Seq(ast.Group(gk, inner), ast.Group(ast.GCap, s.node(t, d-1)))
	case k == 16 && !s.cfg.NoAnchors:
		// a single-character loop directly before an end / boundary anchor, possibly with more after it
		var a *ast.Node
		switch rapid.IntRange(0, 3).Draw(t, "loopatom") {
		case 0:
			a = &ast.Node{K: ast.KShort, S: rapid.SampledFrom(shorthands).Draw(t, "short")}
		case 1:
			a = ast.Dot()
		case 2:
			a = ast.Class(s.class(t, 0))
		default:
			a = ast.Lit(s.letter(t))
		}
		q := ast.Quant(a, 0, -1, false)
		s.quantBounds(t, q)
		var loop *ast.Node = q
		if rapid.Bool().Draw(t, "loopcap") {
			loop = ast.Group(ast.GCap, q)
		}
		seq := ast.Seq(s.atom(t), loop, ast.Anchor(rapid.SampledFrom([]string{"$", "$", `\Z`, `\z`, `\b`, `\B`}).Draw(t, "endanchor")))
		if rapid.IntRange(0, 2).Draw(t, "afteranchor") == 0 {
			seq.Kids = append(seq.Kids, ast.Lit('\n'))
		}
		return seq
	case k == 15 && s.cfg.Full && !s.cfg.NoBackref:
		// sparse explicitly numbered groups with a reference / group test to one of them
		g1 := ast.Group(ast.GNumbered, s.node(t, d-1))
		g1.Num = rapid.SampledFrom([]int{2, 3, 5}).Draw(t, "sparse1")
		g2 := ast.Group(ast.GNumbered, s.node(t, d-1))
		g2.Num = g1.Num + rapid.SampledFrom([]int{2, 4, 7}).Draw(t, "sparse2")
		target := rapid.SampledFrom([]int{g1.Num, g2.Num}).Draw(t, "sparsetarget")
		if rapid.IntRange(0, 2).Draw(t, "sparsecond") == 0 {
			return ast.Seq(g1, g2, &ast.Node{K: ast.KCond, Num: target, Kids: []*ast.Node{nil, &ast.Node{K: ast.KBackref, Num: target}, s.atom(t)}})
		}
		return ast.Seq(g1, g2, &ast.Node{K: ast.KBackref, Num: target})
	default:
		return s.atom(t)
	}
}

// Pattern draws an AST. Backreference / group-test slots are placeholders (Num < 0)
// until Resolve is called.
func Pattern(t *rapid.T, cfg Cfg) *ast.Node {
	s := &state{cfg: cfg}
	d := rapid.IntRange(1, cfg.Depth).Draw(t, "depth")
	return s.node(t, d)
}

// Resolve annotates the tree for the base options and binds placeholder references
// to existing capture groups (by number, or by name when the group is named and
// byName is drawn). Placeholders are replaced by a literal when no group exists.
func Resolve(t *rapid.T, root *ast.Node, base ast.Opts, captureOrder bool, cfg Cfg) *ast.Info {
	info := ast.Annotate(root, base, captureOrder)
	nums := info.GroupNums
	if cfg.NamedRefsOnly {
		nums = nil
		for _, n := range info.GroupNums {
			if _, ok := info.NumToName[n]; ok {
				nums = append(nums, n)
			}
		}
	}
	root.Walk(func(x *ast.Node) {
		if x.K == ast.KGroup && x.G == ast.GBalance && len(x.S2) > 0 && x.S2[0] == '?' {
			// bind the group to be uncaptured to an existing group other than this one
			var cands []string
			for _, n := range info.GroupNums {
				if name, ok := info.NumToName[n]; ok {
					if name != x.S {
						cands = append(cands, name)
					}
				} else {
					cands = append(cands, fmt.Sprint(n))
				}
			}
			if len(cands) == 0 {
				x.G = ast.GNon
				x.S, x.S2 = "", ""
				return
			}
			slot := int(x.S2[1] - '0')
			x.S2 = cands[slot%len(cands)]
		}
	})
	info = ast.Annotate(root, base, captureOrder)
	nums = info.GroupNums
	if cfg.NamedRefsOnly {
		nums = nil
		for _, n := range info.GroupNums {
			if _, ok := info.NumToName[n]; ok {
				nums = append(nums, n)
			}
		}
	}
	root.Walk(func(x *ast.Node) {
		isRef := x.K == ast.KBackref && x.Num < 0
		isTest := x.K == ast.KCond && x.Kids[0] == nil && x.Num < 0
		if !isRef && !isTest {
			return
		}
		if len(nums) == 0 {
			if isRef {
				*x = *ast.Lit('a')
			} else {
				// turn the group test into a lookahead test
				x.Kids[0] = ast.Group(ast.GLookahead, ast.Lit('a'))
				x.Num = 0
			}
			return
		}
		slot := -1 - x.Num
		num := nums[slot%len(nums)]
		x.Num = num
		x.S = ""
		if name, ok := info.NumToName[num]; ok && (cfg.NamedRefsOnly || rapid.Bool().Draw(t, "refbyname")) {
			x.S = name
			x.Num = 0
		}
	})
	return ast.Annotate(root, base, captureOrder)
}

// Opts draws a subset of the inline-togglable options from letters.
func Opts(t *rapid.T, letters string) ast.Opts {
	var o ast.Opts
	for i := 0; i < len(letters); i++ {
		if rapid.IntRange(0, 3).Draw(t, "opt"+string(letters[i])) == 0 {
			switch letters[i] {
			case 'i':
				o.I = true
			case 'm':
				o.M = true
			case 's':
				o.S = true
			case 'n':
				o.N = true
			case 'x':
				o.X = true
			}
		}
	}
	return o
}

// Blanks returns a Blank function for x-mode printing driven by drawn values.
func Blanks(t *rapid.T) func() string {
	choices := []string{"", "", "", " ", "\t", "\n", " #c\n", "  "}
	seq := rapid.SliceOfN(rapid.IntRange(0, len(choices)-1), 16, 16).Draw(t, "blanks")
	i := 0
	return func() string {
		v := choices[seq[i%len(seq)]]
		i++
		return v
	}
}
