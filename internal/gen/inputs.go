package gen

import (
	"unicode"

	"pgregory.net/rapid"

	"verif/internal/ast"
	"verif/internal/cls"
)

var noise = []rune{'a', 'b', 'x', '0', ' ', '\n', '_', '-', 'A', 'é', 'λ', '日', 0x0301, 0x1F600, 'q', 0x1F601, 0x10FFFF}
var noiseSafe = []rune{'a', 'b', 'x', '0', ' ', '\n', '_', '-', 'A', 'é', 'λ', '日', 0x0301, 0x1F600, 'q', 'Ж', 0x1F601, 0x10FFFF}

func classOpts(n *ast.Node, re2, ecma bool) cls.Opts {
	return cls.Opts{I: n.Eff.I, RE2: re2, ECMA: ecma}
}

// member finds a rune inside (want=true) or outside the leaf's set, trying pattern-related candidates first.
func member(n *ast.Node, want bool, cands []rune, re2 bool) (rune, bool) {
	in := func(r rune) bool {
		switch n.K {
		case ast.KClass:
			return cls.In(r, n.C, classOpts(n, re2, false))
		case ast.KShort:
			return cls.ShortIn(n.S[0], r, classOpts(n, re2, false))
		case ast.KProp:
			return cls.In(r, &cls.Expr{Items: []cls.Item{{Kind: cls.Prop, Name: n.S, Neg: n.Neg}}}, classOpts(n, re2, false))
		case ast.KDot:
			return r != '\n' || n.Eff.S
		}
		return false
	}
	for _, r := range cands {
		if in(r) == want {
			return r, true
		}
	}
	return 0, false
}

var probeRunes = []rune{'a', 'b', 'c', 'x', 'y', 'z', 'A', 'B', 'Z', '0', '1', '5', '9', ' ', '\t', '\n', '_', '-', '!', '.', 'é', 'É', 'λ', 'Λ', 'ж', 'Ж', '日', 0x0301, 0x1F600, 0x00A0, 0x0660, 'ÿ', 0x2028, 0xFFFF, 0x10000, 0x1F601, 0x10FFFF}

// Alphabet derives a small alphabet from the pattern: its literal runes, one member and one
// non-member of every set leaf, newline and one foreign rune; capped to max symbols
// (the first symbols are the most pattern-specific).
func Alphabet(root *ast.Node, re2 bool, max int) []rune {
	seen := map[rune]bool{}
	var out []rune
	add := func(r rune) {
		if !seen[r] && len(out) < max {
			seen[r] = true
			out = append(out, r)
		}
	}
	for _, r := range ast.LiteralRunes(root) {
		add(r)
	}
	root.Walk(func(x *ast.Node) {
		switch x.K {
		case ast.KClass, ast.KShort, ast.KProp:
			c := append(append([]rune{}, ast.LiteralRunes(root)...), probeRunes...)
			if r, ok := member(x, true, c, re2); ok {
				add(r)
			}
			if r, ok := member(x, false, c, re2); ok {
				add(r)
			}
		}
	})
	add('\n')
	add('q')
	add('a')
	add(' ')
	return out
}

// Exhaustive enumerates every string over alpha of length 0..maxLen; f returns false to stop.
func Exhaustive(alpha []rune, maxLen int, f func([]rune) bool) {
	buf := make([]rune, 0, maxLen)
	var rec func(l int) bool
	rec = func(l int) bool {
		if !f(buf) {
			return false
		}
		if l == maxLen {
			return true
		}
		for _, r := range alpha {
			buf = append(buf, r)
			if !rec(l + 1) {
				return false
			}
			buf = buf[:len(buf)-1]
		}
		return true
	}
	rec(0)
}

// ExhaustiveCount is the number of strings Exhaustive visits.
func ExhaustiveCount(k, maxLen int) int {
	n, p := 0, 1
	for l := 0; l <= maxLen; l++ {
		n += p
		p *= k
	}
	return n
}

type sampler struct {
	t        *rapid.T
	re2      bool
	caps     map[int][]rune
	alpha    []rune
	budget   int
	caseSafe bool
	maxOut   int // emitted text is cut off here: nested counted loops around backreferences grow exponentially
}

func (s *sampler) flip(r rune, ic bool) rune {
	if ic && rapid.IntRange(0, 2).Draw(s.t, "flip") == 0 {
		if f := unicode.SimpleFold(r); f != r {
			if s.caseSafe && unicode.SimpleFold(f) != r {
				return r // s -> LONG S, k -> KELVIN SIGN: not a plain pair, outside the case-safe domain
			}
			return f
		}
	}
	return r
}

func (s *sampler) emit(n *ast.Node, out []rune) []rune {
	if n == nil || s.budget <= 0 || (s.maxOut > 0 && len(out) >= s.maxOut) {
		return out
	}
	s.budget--
	switch n.K {
	case ast.KLit:
		for _, r := range n.R {
			out = append(out, s.flip(r, n.Eff.I))
		}
	case ast.KDot, ast.KClass, ast.KShort, ast.KProp:
		c := append(append([]rune{}, s.alpha...), probeRunes...)
		off := rapid.IntRange(0, len(c)-1).Draw(s.t, "memberoff")
		c = append(c[off:], c[:off]...)
		if r, ok := member(n, true, c, s.re2); ok {
			out = append(out, r)
		}
	case ast.KSeq:
		for _, k := range n.Kids {
			out = s.emit(k, out)
		}
	case ast.KAlt:
		out = s.emit(n.Kids[rapid.IntRange(0, len(n.Kids)-1).Draw(s.t, "branch")], out)
	case ast.KGroup:
		switch n.G {
		case ast.GNegLookahead, ast.GNegLookbehind, ast.GLookbehind:
			// nothing: the text they inspect is whatever surrounds them
		case ast.GLookahead:
			// usually what follows must also satisfy it; emit nothing
		default:
			start := len(out)
			out = s.emit(n.Kids[0], out)
			if n.Cap > 0 {
				s.caps[n.Cap] = append([]rune{}, out[start:]...)
			}
		}
	case ast.KQuant:
		hi := n.Min + 2
		if n.Max >= 0 && hi > n.Max {
			hi = n.Max
		}
		c := rapid.IntRange(n.Min, hi).Draw(s.t, "reps")
		for i := 0; i < c; i++ {
			out = s.emit(n.Kids[0], out)
		}
	case ast.KBackref:
		for _, r := range s.caps[n.Cap] {
			if s.maxOut > 0 && len(out) >= s.maxOut {
				break
			}
			out = append(out, s.flip(r, n.Eff.I))
		}
	case ast.KCond:
		b := n.Kids[1]
		if n.Kids[2] != nil && rapid.Bool().Draw(s.t, "condbranch") {
			b = n.Kids[2]
		}
		out = s.emit(b, out)
	case ast.KOpt:
		if len(n.Kids) > 0 {
			out = s.emit(n.Kids[0], out)
		}
	case ast.KAnchor:
		if (n.S == "^" || n.S == "$") && n.Eff.M && rapid.IntRange(0, 2).Draw(s.t, "nl") == 0 {
			out = append(out, '\n')
		}
	}
	return out
}

// Directed draws a string the pattern is likely to match (a random walk through the AST),
// mutated and embedded in noise. alpha is the pattern-derived alphabet.
func Directed(t *rapid.T, root *ast.Node, re2 bool, alpha []rune, caseSafe bool, maxLen int) []rune {
	s := &sampler{t: t, re2: re2, caps: map[int][]rune{}, alpha: alpha, budget: 400, maxOut: 4*maxLen + 64, caseSafe: caseSafe}
	core := s.emit(root, nil)
	nz := noise
	if caseSafe {
		nz = noiseSafe
	}
	pool := append(append([]rune{}, alpha...), nz...)
	// mutate
	switch rapid.IntRange(0, 7).Draw(t, "mut") {
	case 0:
		if len(core) > 0 {
			i := rapid.IntRange(0, len(core)-1).Draw(t, "mi")
			core = append(core[:i:i], core[i+1:]...)
		}
	case 1:
		if len(core) > 0 {
			i := rapid.IntRange(0, len(core)-1).Draw(t, "mi")
			core = append(core[:i+1:i+1], core[i:]...)
		}
	case 2:
		if len(core) > 0 {
			i := rapid.IntRange(0, len(core)-1).Draw(t, "mi")
			core = append([]rune{}, core...)
			core[i] = rapid.SampledFrom(pool).Draw(t, "mr")
		}
	case 3:
		if len(core) > 0 {
			core = core[:rapid.IntRange(0, len(core)-1).Draw(t, "mi")]
		}
	}
	pre := rapid.SliceOfN(rapid.SampledFrom(pool), 0, 3).Draw(t, "pre")
	post := rapid.SliceOfN(rapid.SampledFrom(pool), 0, 3).Draw(t, "post")
	out := append(append(append([]rune{}, pre...), core...), post...)
	if len(out) > maxLen {
		out = out[:maxLen]
	}
	// a final newline is where $ and \Z differ from \z
	if rapid.IntRange(0, 4).Draw(t, "finalnl") == 0 {
		out = append(out, '\n')
	}
	return out
}

// Random draws a plain random string over alpha ∪ noise.
func Random(t *rapid.T, alpha []rune, maxLen int) []rune {
	pool := append(append([]rune{}, alpha...), noise...)
	return rapid.SliceOfN(rapid.SampledFrom(pool), 0, maxLen).Draw(t, "rand")
}

// ByteString turns runes into a byte string in which some positions are replaced by invalid
// UTF-8 sequences (lone continuation bytes, truncated sequences, overlong forms, surrogate
// encodings), a literal U+FFFD or NUL.
func ByteString(t *rapid.T, r []rune, invalidRate int) string {
	hostile := []string{"\xff", "\x80", "\xc3", "\xe2\x82", "\xf0\x9f\x98", "\xc0\xaf", "\xed\xa0\x80", "�", "\x00", "\xf8"}
	var b []byte
	for _, c := range r {
		if invalidRate > 0 && rapid.IntRange(0, invalidRate).Draw(t, "inv") == 0 {
			b = append(b, rapid.SampledFrom(hostile).Draw(t, "hostile")...)
			continue
		}
		b = append(b, string(c)...)
	}
	if invalidRate > 0 && rapid.IntRange(0, invalidRate).Draw(t, "invtail") == 0 {
		b = append(b, rapid.SampledFrom(hostile).Draw(t, "hostile")...)
	}
	return string(b)
}
