package gen

import (
	regexp2 "github.com/dlclark/regexp2/v2"
	"pgregory.net/rapid"

	"verif/internal/ast"
	"verif/internal/corpus"
	"verif/internal/eng"
)

// FullOpts draws a set of regex options over all nine bits. allowRTL etc. gate dialects.
func FullOpts(t *rapid.T, allowRTL, allowECMA, allowRE2 bool) (regexp2.RegexOptions, ast.Opts) {
	base := Opts(t, "imsnx")
	var o regexp2.RegexOptions
	if base.I {
		o |= regexp2.IgnoreCase
	}
	if base.M {
		o |= regexp2.Multiline
	}
	if base.S {
		o |= regexp2.Singleline
	}
	if base.N {
		o |= regexp2.ExplicitCapture
	}
	if base.X {
		o |= regexp2.IgnorePatternWhitespace
	}
	if allowRTL && rapid.IntRange(0, 5).Draw(t, "rtl") == 0 {
		o |= regexp2.RightToLeft
	}
	d := rapid.IntRange(0, 11).Draw(t, "dialect")
	switch {
	case d == 0 && allowECMA:
		o |= regexp2.ECMAScript
	case d == 1 && allowECMA:
		o |= regexp2.ECMAScript | regexp2.Unicode
	case d == 2 && allowRE2:
		o |= regexp2.RE2
	}
	return o, base
}

// FullSpec draws a pattern (F-full AST ~80 %, harvested corpus ~20 %) with options and compile options.
// The returned AST is nil for corpus patterns.
func FullSpec(t *rapid.T, cfg Cfg, allowRTL, allowECMA, allowRE2 bool) (eng.Spec, *ast.Node, ast.Opts) {
	o, base := FullOpts(t, allowRTL, allowECMA, allowRE2)
	spec := eng.Spec{Options: int32(o)}
	spec.CodeGen = rapid.IntRange(0, 3).Draw(t, "codegen") == 0
	spec.NoBitmap = rapid.IntRange(0, 3).Draw(t, "nobitmap") == 0
	spec.CaptureOrder = rapid.IntRange(0, 7).Draw(t, "captureorder") == 0
	if rapid.IntRange(0, 4).Draw(t, "corpus") == 0 {
		e := corpus.Patterns[rapid.IntRange(0, len(corpus.Patterns)-1).Draw(t, "corpusidx")]
		spec.Pattern = e.P
		return spec, nil, base
	}
	cfg.Full = true
	if cfg.Depth == 0 {
		cfg.Depth = 4
	}
	if cfg.Inline == "" {
		cfg.Inline = "imsnx"
	}
	root := Pattern(t, cfg)
	Resolve(t, root, base, spec.CaptureOrder || o&regexp2.ECMAScript != 0, cfg)
	po := ast.PrintOpts{ECMA: o&regexp2.ECMAScript != 0}
	if base.X {
		po.Blank = Blanks(t)
	}
	spec.Pattern = ast.Print(root, po)
	return spec, root, base
}
