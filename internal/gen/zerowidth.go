package gen

import (
	"pgregory.net/rapid"

	"verif/internal/ast"
)

// ZeroWidth draws a pattern biased towards nullable and zero-width shapes.
func ZeroWidth(t *rapid.T, cfg Cfg) *ast.Node {
	s := &state{cfg: cfg}
	ch := func() *ast.Node { return ast.Lit(rapid.SampledFrom([]rune("ab \n")).Draw(t, "zch")) }
	var piece func(d int) *ast.Node
	piece = func(d int) *ast.Node {
		switch rapid.IntRange(0, 15).Draw(t, "zpiece") {
		case 0:
			return ast.Quant(ch(), 0, -1, rapid.Bool().Draw(t, "zlazy"))
		case 1:
			return ast.Anchor(rapid.SampledFrom([]string{`\b`, `\B`, "^", "$", `\G`, `\A`, `\z`, `\Z`}).Draw(t, "zanchor"))
		case 2:
			return ast.Group(rapid.SampledFrom([]ast.GKind{ast.GLookahead, ast.GNegLookahead, ast.GLookbehind, ast.GNegLookbehind}).Draw(t, "zlook"), ch())
		case 3:
			return ast.Quant(ch(), 0, 1, rapid.Bool().Draw(t, "zlazy"))
		case 4:
			return ast.Group(ast.GCap, ast.Alt(ch(), ast.Empty()))
		case 5:
			return ast.Group(ast.GCap, ast.Alt(ast.Empty(), ch()))
		case 6:
			return ast.Anchor(`\G`)
		case 7:
			if d > 0 {
				return ast.Seq(piece(d-1), piece(d-1))
			}
			return ch()
		case 8:
			if d > 0 {
				return ast.Alt(piece(d-1), piece(d-1))
			}
			return ast.Empty()
		case 9:
			if d > 0 {
				q := ast.Quant(ast.Group(ast.GNon, piece(d-1)), 0, -1, false)
				s.quantBounds(t, q)
				return q
			}
			return ch()
		case 10:
			return s.node(t, 1)
		case 11:
			return ast.Empty()
		case 12:
			return ast.Group(ast.GCap, ast.Quant(ch(), 0, -1, false))
		default:
			return ch()
		}
	}
	return piece(2)
}
