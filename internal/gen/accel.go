package gen

import (
	"pgregory.net/rapid"

	"verif/internal/ast"
	"verif/internal/cls"
)

var accelLetters = []rune("abcabxyzABZ019 -@:") // incl. the ends of a-z / A-Z / 0-9: boundary values of the ASCII case helpers

func (s *state) accStr(t *rapid.T, min, max int) *ast.Node {
	n := rapid.IntRange(min, max).Draw(t, "strlen")
	r := make([]rune, n)
	for i := range r {
		switch rapid.IntRange(0, 11).Draw(t, "strk") {
		case 0:
			r[i] = rapid.SampledFrom([]rune{'é', 'λ', '日', 0x1F600, 'Ж', 0xFFFD}).Draw(t, "wide")
		case 1:
			if i > 0 {
				r[i] = r[i-1] // repeated characters stress shift tables
				continue
			}
			fallthrough
		default:
			r[i] = rapid.SampledFrom(accelLetters).Draw(t, "ch")
		}
	}
	return ast.Lit(r...)
}

func (s *state) smallSet(t *rapid.T) *ast.Node {
	e := &cls.Expr{}
	switch rapid.IntRange(0, 6).Draw(t, "setk") {
	case 6:
		// everything but one rune near the top of the BMP or above it: the complement has a range above the rune
		e.Neg = true
		e.Items = []cls.Item{{Kind: cls.Char, Lo: rapid.SampledFrom([]rune{0xFFFD, 0xFFFF, 0x10000, 0x1F600, 'é'}).Draw(t, "widech")}}
	case 0:
		e.Items = []cls.Item{{Kind: cls.Range, Lo: 'a', Hi: rune('b' + rapid.IntRange(0, 3).Draw(t, "hi"))}}
	case 1:
		e.Neg = true
		e.Items = []cls.Item{{Kind: cls.Char, Lo: rapid.SampledFrom(accelLetters).Draw(t, "ch")}}
		if rapid.Bool().Draw(t, "two") {
			e.Items = append(e.Items, cls.Item{Kind: cls.Char, Lo: rapid.SampledFrom(accelLetters).Draw(t, "ch")})
		}
	case 2:
		e.Items = []cls.Item{{Kind: cls.Short, Name: rapid.SampledFrom([]string{"d", "w", "s"}).Draw(t, "sh")}}
	default:
		n := rapid.IntRange(1, 4).Draw(t, "nch")
		for i := 0; i < n; i++ {
			e.Items = append(e.Items, cls.Item{Kind: cls.Char, Lo: rapid.SampledFrom(accelLetters).Draw(t, "ch")})
		}
	}
	return ast.Class(e)
}

func ws(min int) *ast.Node {
	return ast.Quant(&ast.Node{K: ast.KShort, S: "s"}, min, -1, false)
}

func (s *state) landmark(t *rapid.T) *ast.Node { return s.landmarkFrom(t, nil) }

// landmarkFrom draws a landmark whose cores use only the runes of pool (if given), so that
// alternatives and consecutive landmarks overlap often.
func (s *state) landmarkFrom(t *rapid.T, pool []rune) *ast.Node {
	lit := func(min, max int) *ast.Node {
		if pool == nil {
			return s.accStr(t, min, max)
		}
		n := rapid.IntRange(min, max).Draw(t, "plen")
		r := make([]rune, n)
		for i := range r {
			r[i] = rapid.SampledFrom(pool).Draw(t, "pch")
		}
		return ast.Lit(r...)
	}
	set := func() *ast.Node {
		if pool == nil {
			return s.smallSetPos(t)
		}
		e := &cls.Expr{}
		n := rapid.IntRange(1, len(pool)).Draw(t, "pset")
		for i := 0; i < n; i++ {
			e.Items = append(e.Items, cls.Item{Kind: cls.Char, Lo: pool[i]})
		}
		return ast.Class(e)
	}
	one := func() *ast.Node {
		seq := ast.Seq()
		if k := rapid.IntRange(0, 3).Draw(t, "wsb"); k < 2 {
			seq.Kids = append(seq.Kids, ws(k))
		}
		switch rapid.IntRange(0, 2).Draw(t, "corek") {
		case 0:
			seq.Kids = append(seq.Kids, lit(1, 3))
		case 1:
			seq.Kids = append(seq.Kids, set())
		default:
			lo := rapid.IntRange(1, 2).Draw(t, "lo")
			seq.Kids = append(seq.Kids, ast.Quant(set(), lo, lo+rapid.IntRange(0, 2).Draw(t, "span"), false))
		}
		if k := rapid.IntRange(0, 3).Draw(t, "wsa"); k < 2 {
			seq.Kids = append(seq.Kids, ws(k))
		}
		if len(seq.Kids) == 1 {
			return seq.Kids[0]
		}
		return seq
	}
	if rapid.IntRange(0, 2).Draw(t, "lmalt") == 0 {
		a := ast.Alt()
		n := rapid.IntRange(2, 3).Draw(t, "lmaltn")
		for i := 0; i < n; i++ {
			a.Kids = append(a.Kids, one())
		}
		return ast.Group(ast.GNon, a)
	}
	return one()
}

func (s *state) smallSetPos(t *rapid.T) *ast.Node {
	e := &cls.Expr{}
	n := rapid.IntRange(1, 3).Draw(t, "nch")
	for i := 0; i < n; i++ {
		e.Items = append(e.Items, cls.Item{Kind: cls.Char, Lo: rapid.SampledFrom(accelLetters).Draw(t, "ch")})
	}
	return ast.Class(e)
}

// Accel draws a pattern shaped for one of the candidate-search modes, with random sub-fragments in the holes.
func Accel(t *rapid.T, cfg Cfg) *ast.Node {
	s := &state{cfg: cfg}
	tail := func() *ast.Node {
		if rapid.IntRange(0, 2).Draw(t, "notail") == 0 {
			return ast.Empty()
		}
		return s.node(t, rapid.IntRange(0, 2).Draw(t, "taildepth"))
	}
	kind := rapid.IntRange(0, 20).Draw(t, "accel")
	if kind >= 19 {
		kind = 5 // the landmark chain has the most moving parts: give it extra weight
	}
	if kind == 18 && cfg.NoCond {
		kind = 2
	}
	switch kind {
	case 0: // leading string
		return ast.Seq(s.accStr(t, 2, 6), tail())
	case 1: // alternation of literals
		a := ast.Alt()
		if rapid.IntRange(0, 2).Draw(t, "manyalt") == 0 {
			// six to nine branches with pairwise different first letters in drawn (unsorted) order: the
			// multi-prefix search keeps a table of first runes
			firsts := rapid.Permutation([]rune("tseaiozbxm")).Draw(t, "altfirsts")
			n := rapid.IntRange(6, 9).Draw(t, "nmanyalt")
			for i := 0; i < n; i++ {
				rest := s.accStr(t, 1, 3)
				a.Kids = append(a.Kids, ast.Lit(append([]rune{firsts[i]}, rest.R...)...))
			}
			return ast.Seq(ast.Group(ast.GNon, a), tail())
		}
		if rapid.IntRange(0, 3).Draw(t, "runalt") == 0 {
			// branches that are runs of one character of different (fixed or bounded) lengths, in drawn order,
			// optionally after a leading loop: what all branches share is the shortest run, wherever it stands
			ch := rapid.SampledFrom(accelLetters).Draw(t, "runch")
			n := rapid.IntRange(3, 4).Draw(t, "nrun")
			for i := 0; i < n; i++ {
				k := rapid.IntRange(1, 3).Draw(t, "runlen")
				var b *ast.Node
				if rapid.IntRange(0, 2).Draw(t, "runloop") == 0 {
					b = ast.Quant(ast.Lit(ch), k, k+rapid.IntRange(0, 1).Draw(t, "runspan"), false)
				} else {
					r := make([]rune, k)
					for j := range r {
						r[j] = ch
					}
					b = ast.Lit(r...)
				}
				if rapid.Bool().Draw(t, "runtail") {
					b = ast.Seq(b, ws(0))
				}
				a.Kids = append(a.Kids, b)
			}
			body := ast.Seq(ast.Group(ast.GNon, a), tail())
			if rapid.Bool().Draw(t, "runlead") {
				return ast.Seq(ast.Quant(s.smallSet(t), 1, -1, false), body)
			}
			return body
		}
		n := rapid.IntRange(2, 4).Draw(t, "nalt")
		for i := 0; i < n; i++ {
			a.Kids = append(a.Kids, s.accStr(t, 2, 4))
		}
		return ast.Seq(ast.Group(ast.GNon, a), tail())
	case 17: // shared literal, then branches that diverge at runes sharing their leading UTF-8 bytes
		sib := [][]rune{{'é', 'É'}, {'λ', 'Λ'}, {'日', '旧'}, {0x1F600, 0x1F601}, {'Ж', 'ж'}, {'é', 'ë', 'É'}}
		pair := rapid.SampledFrom(sib).Draw(t, "siblings")
		a := ast.Alt()
		for _, r := range pair {
			a.Kids = append(a.Kids, ast.Seq(ast.Lit(r), s.accStr(t, 0, 2), tail()))
		}
		pre := s.accStr(t, 0, 3)
		if len(pre.R) == 0 {
			return ast.Seq(ast.Group(ast.GNon, a), tail())
		}
		return ast.Seq(pre, ast.Group(ast.GNon, a), tail())
	case 18: // a nullable lead, then a conditional with a lookahead test: one branch nullable, the other starting with a set loop
		lead := ast.Quant(s.accStr(t, 1, 1), 0, 1, rapid.Bool().Draw(t, "leadlazy"))
		test := ast.Group(ast.GLookahead, ast.Seq(ast.Quant(s.accStr(t, 1, 1), 1, -1, rapid.Bool().Draw(t, "testlazy"))))
		set := rapid.SampledFrom([]*ast.Node{{K: ast.KShort, S: "W"}, {K: ast.KShort, S: "s"}, {K: ast.KShort, S: "d"}}).Draw(t, "condset")
		if rapid.Bool().Draw(t, "condsmall") {
			set = s.smallSet(t)
		}
		other := ast.Seq(ast.Quant(set, 1, -1, rapid.Bool().Draw(t, "setlazy")), s.accStr(t, 0, 1))
		yes, no := ast.Empty(), other
		if rapid.Bool().Draw(t, "condswap") {
			yes, no = other, ast.Empty()
		}
		return ast.Seq(lead, &ast.Node{K: ast.KCond, Kids: []*ast.Node{test, yes, no}}, tail())
	case 2: // leading set
		return ast.Seq(s.smallSet(t), tail())
	case 3: // fixed-distance string / char / sets
		pre := ast.Seq()
		n := rapid.IntRange(1, 3).Draw(t, "npre")
		if s.cfg.Magic && rapid.IntRange(0, 3).Draw(t, "magicpre") == 0 {
			// a long fixed-count set loop before the literal: the distance must survive the analysis' expansion limits
			c := rapid.SampledFrom(magicCounts).Draw(t, "magiccount")
			pre.Kids = append(pre.Kids, ast.Quant(s.smallSet(t), c, c, false))
			n = rapid.IntRange(0, 1).Draw(t, "npre2")
		}
		for i := 0; i < n; i++ {
			if rapid.Bool().Draw(t, "predot") {
				pre.Kids = append(pre.Kids, ast.Dot())
			} else {
				pre.Kids = append(pre.Kids, s.smallSet(t))
			}
		}
		return ast.Seq(pre, s.accStr(t, 1, 3), tail())
	case 4: // literal after loop
		set := s.smallSet(t)
		if rapid.IntRange(0, 3).Draw(t, "bigset") != 0 {
			switch rapid.IntRange(0, 4).Draw(t, "bigk") {
			case 0:
				set = &ast.Node{K: ast.KShort, S: "w"}
			case 1:
				set = &ast.Node{K: ast.KShort, S: "d"}
			case 2:
				set = &ast.Node{K: ast.KShort, S: "s"}
			case 3:
				set = ast.Class(&cls.Expr{Items: []cls.Item{{Kind: cls.Range, Lo: 'a', Hi: 'z'}, {Kind: cls.Range, Lo: '0', Hi: '9'}}})
			default:
				set = ast.Class(&cls.Expr{Items: []cls.Item{{Kind: cls.Short, Name: "w"}, {Kind: cls.Char, Lo: '.'}}})
			}
		}
		loop := ast.Quant(set, rapid.IntRange(0, 1).Draw(t, "lmin"), -1, rapid.IntRange(0, 4).Draw(t, "llazy") == 0)
		var lit *ast.Node
		if rapid.Bool().Draw(t, "litset") {
			lit = s.smallSetPos(t)
		} else {
			lit = s.accStr(t, 1, 3)
		}
		return ast.Seq(loop, lit, tail())
	case 5: // landmark chain
		seq := ast.Seq(ast.Quant(s.smallSet(t), rapid.IntRange(0, 1).Draw(t, "lmin"), -1, false))
		n := rapid.IntRange(2, 3).Draw(t, "nlm")
		var pool []rune
		if rapid.Bool().Draw(t, "sharedpool") {
			pool = []rune{rapid.SampledFrom(accelLetters).Draw(t, "p1"), rapid.SampledFrom(accelLetters).Draw(t, "p2")}
			if rapid.Bool().Draw(t, "p3b") {
				pool = append(pool, rapid.SampledFrom(accelLetters).Draw(t, "p3"))
			}
		}
		for i := 0; i < n; i++ {
			lm := s.landmarkFrom(t, pool)
			if rapid.IntRange(0, 3).Draw(t, "lmcap") == 0 {
				lm = ast.Group(ast.GCap, lm)
			}
			seq.Kids = append(seq.Kids, lm)
			if i > 0 && rapid.IntRange(0, 3).Draw(t, "gap") == 0 {
				seq.Kids = append(seq.Kids, s.node(t, 1))
			}
		}
		seq.Kids = append(seq.Kids, tail())
		return seq
	case 6: // leading anchor
		return ast.Seq(ast.Anchor(rapid.SampledFrom([]string{"^", `\A`, `\G`, `\z`, `\Z`, "$"}).Draw(t, "lanchor")), s.node(t, 2))
	case 7: // trailing anchor, fixed length
		body := ast.Seq()
		n := rapid.IntRange(1, 3).Draw(t, "nfix")
		for i := 0; i < n; i++ {
			switch rapid.IntRange(0, 2).Draw(t, "fixk") {
			case 0:
				body.Kids = append(body.Kids, s.accStr(t, 1, 2))
			case 1:
				body.Kids = append(body.Kids, s.smallSet(t))
			default:
				c := rapid.IntRange(1, 3).Draw(t, "cnt")
				if s.cfg.Magic && rapid.IntRange(0, 5).Draw(t, "magic") == 0 {
					c = rapid.SampledFrom(magicCounts).Draw(t, "magiccount")
				}
				body.Kids = append(body.Kids, ast.Quant(s.smallSet(t), c, c, false))
			}
		}
		return ast.Seq(body, ast.Anchor(rapid.SampledFrom([]string{"$", `\z`, `\Z`}).Draw(t, "tanchor")))
	case 8: // leading positive lookahead
		return ast.Seq(ast.Group(ast.GLookahead, ast.Seq(s.accStr(t, 1, 3), tail())), s.node(t, 2))
	case 9: // counted group
		c := rapid.IntRange(2, 3).Draw(t, "cnt")
		return ast.Seq(ast.Quant(ast.Group(ast.GNon, ast.Seq(s.accStr(t, 1, 2), ast.Quant(ast.Lit(rapid.SampledFrom(accelLetters).Draw(t, "ch")), 0, -1, false))), c, c+rapid.IntRange(0, 1).Draw(t, "span"), false), tail())
	case 10: // leading loop (bump-along) then something, possibly inside an atomic group
		if rapid.IntRange(0, 2).Draw(t, "inatomic") == 0 {
			inner := ast.Seq(ast.Quant(s.smallSet(t), rapid.IntRange(0, 1).Draw(t, "lmin"), -1, rapid.Bool().Draw(t, "llazy")), s.node(t, 1))
			return ast.Seq(ast.Group(ast.GAtomic, inner), s.node(t, 1))
		}
		return ast.Seq(ast.Quant(s.smallSet(t), rapid.IntRange(0, 1).Draw(t, "lmin"), -1, rapid.Bool().Draw(t, "llazy")), s.node(t, 2))
	case 11: // long literal (Boyer-Moore), sometimes around the 50-rune prefix limit
		if s.cfg.Magic && rapid.IntRange(0, 3).Draw(t, "magiclit") == 0 {
			n := rapid.SampledFrom([]int{49, 50, 51, 52, 53}).Draw(t, "magiclitlen")
			return ast.Seq(s.accStr(t, n, n), tail())
		}
		return ast.Seq(s.accStr(t, 4, 10), tail())
	case 12: // optional prefix then literal
		return ast.Seq(ast.Quant(s.accStr(t, 1, 2), 0, 1, false), s.accStr(t, 2, 4), tail())
	case 15: // a leading capture group that starts with an unbounded loop, referenced later
		loop := ast.Quant(s.smallSet(t), rapid.IntRange(0, 1).Draw(t, "lmin"), -1, rapid.IntRange(0, 3).Draw(t, "llazy") == 0)
		g := ast.Group(ast.GCap, ast.Seq(loop, s.accStr(t, 1, 2)))
		mid := ast.Empty()
		if rapid.Bool().Draw(t, "mid") {
			mid = s.accStr(t, 1, 1)
		}
		return ast.Seq(g, mid, &ast.Node{K: ast.KBackref, Num: 1}, tail())
	case 16: // an optional loop whose body starts with a positive lookahead, at the very start
		body := ast.Group(ast.GNon, ast.Seq(ast.Group(ast.GLookahead, s.accStr(t, 1, 2)), s.node(t, 1)))
		q := ast.Quant(body, 0, rapid.SampledFrom([]int{1, 2, -1}).Draw(t, "qmax"), rapid.IntRange(0, 3).Draw(t, "qlazy") == 0)
		return ast.Seq(q, tail())
	case 14: // U+FFFD-centric: invalid bytes of a string input decode to this rune, raw-string searches see other bytes
		seq := ast.Seq()
		n := rapid.IntRange(1, 4).Draw(t, "nfffd")
		for i := 0; i < n; i++ {
			switch rapid.IntRange(0, 4).Draw(t, "fffdk") {
			case 0:
				seq.Kids = append(seq.Kids, ast.Dot())
			case 1, 2:
				seq.Kids = append(seq.Kids, ast.Lit(0xFFFD))
			case 3:
				seq.Kids = append(seq.Kids, ast.Lit(rapid.SampledFrom(accelLetters).Draw(t, "ch")))
			default:
				seq.Kids = append(seq.Kids, s.smallSet(t))
			}
		}
		return seq
	case 13: // group-wrapped leading things
		return ast.Seq(ast.Group(ast.GCap, ast.Seq(s.accStr(t, 1, 3), tail())), tail())
	default:
		return s.node(t, rapid.IntRange(1, 3).Draw(t, "depth"))
	}
}

// NearMiss builds an input from fragments of the pattern's literals (full, truncated, repeated) mixed
// with members of its sets and noise, so that searched literals occur at many offsets without matching.
func NearMiss(t *rapid.T, root *ast.Node, alpha []rune, maxLen int) []rune {
	var lits [][]rune
	root.Walk(func(x *ast.Node) {
		if x.K == ast.KLit && len(x.R) > 0 {
			lits = append(lits, x.R)
		}
	})
	pool := append(append([]rune{}, alpha...), 'a', 'b', ' ', '\n', 'x')
	var out []rune
	n := rapid.IntRange(1, 6).Draw(t, "nfrag")
	for i := 0; i < n && len(out) < maxLen; i++ {
		switch k := rapid.IntRange(0, 4).Draw(t, "fragk"); {
		case k <= 2 && len(lits) > 0:
			l := lits[rapid.IntRange(0, len(lits)-1).Draw(t, "lit")]
			cut := rapid.IntRange(0, len(l)).Draw(t, "cut")
			if rapid.IntRange(0, 2).Draw(t, "full") == 0 {
				cut = len(l)
			}
			out = append(out, l[:cut]...)
		case k == 3:
			out = append(out, rapid.SliceOfN(rapid.SampledFrom(pool), 1, 3).Draw(t, "fill")...)
		default:
			out = append(out, rapid.SampledFrom(pool).Draw(t, "one"))
		}
	}
	if len(out) > maxLen {
		out = out[:maxLen]
	}
	return out
}
