// Package known implements the exclusion predicates of the findings listed as "known:" in
// /verif/KNOWN_FINDINGS.txt. A predicate is an attribution: a disagreement belongs to the finding
// only if it disappears when exactly the named engine rule is switched off (verif-tagged switch);
// anything else is still reported. Predicates are disabled in the replay tier, so that the
// finding's witness keeps failing (and is reported as KNOWN-FINDING) while the defect exists.
package known

import (
	"os"
	"strings"

	"github.com/dlclark/regexp2/v2/syntax"

	"verif/internal/ast"
	"verif/internal/h"
)

// Enabled is false in the replay tier.
var Enabled = os.Getenv("VERIF_TIER") != "replay"

// NonboundaryAtomic attributes a disagreement to the auto-atomicity rule that makes a loop over
// non-word / non-digit characters atomic when \B follows (pinned by the repository's own tree
// tests, hence recorded rather than repaired). recheck must recompile the pattern and return true
// when the disagreement is gone. key is the finding's key for the calling property.
func NonboundaryAtomic(key string, recheck func() bool) bool {
	if !Enabled {
		return false
	}
	syntax.VerifSetNonboundaryAtomicRule(false)
	gone := false
	func() {
		defer func() { _ = recover() }()
		gone = recheck()
	}()
	syntax.VerifSetNonboundaryAtomicRule(true)
	if gone {
		h.Excluded(key)
	}
	return gone
}

// IgnoreCaseU0130 attributes a disagreement with Go's regexp to the finding "under IgnoreCase the engine's
// lower-casing table maps U+0130 (LATIN CAPITAL LETTER I WITH DOT ABOVE) to i": (?i)[\x{130}] matches i and I but
// not U+0130 itself, and the negated ASCII classes (\W, [[:^alpha:]]) leave it out. The predicate is syntactic:
// some part of the pattern is case-insensitive and U+0130 occurs in the input or in the pattern.
func IgnoreCaseU0130(key string, root *ast.Node, input string) bool {
	if !Enabled || root == nil {
		return false
	}
	if !root.Has(func(x *ast.Node) bool { return x.Eff.I }) {
		return false
	}
	inPattern := root.Has(func(x *ast.Node) bool {
		for _, r := range x.R {
			if r == 0x130 {
				return true
			}
		}
		if x.K == ast.KClass && x.C != nil {
			for _, e := range x.C.Endpoints() {
				if e == 0x130 {
					return true
				}
			}
		}
		return false
	})
	if !inPattern && !strings.ContainsRune(input, 0x130) {
		return false
	}
	h.Excluded(key)
	return true
}
