// Package known implements the exclusion predicates of the findings listed as "known:" in
// /verif/KNOWN_FINDINGS.txt. A predicate is an attribution: a disagreement belongs to the finding
// only if it disappears when exactly the named engine rule is switched off (verif-tagged switch);
// anything else is still reported. Predicates are disabled in the replay tier, so that the
// finding's witness keeps failing (and is reported as KNOWN-FINDING) while the defect exists.
package known

import (
	"os"
	"strings"

	"github.com/dlclark/regexp2/v2/syntax"

	"verif/internal/ast"
	"verif/internal/cls"
	"verif/internal/h"
)

// Enabled is false in the replay tier.
var Enabled = os.Getenv("VERIF_TIER") != "replay"

// NonboundaryAtomic attributes a disagreement to the auto-atomicity rule that makes a loop over
// non-word / non-digit characters atomic when \B follows (pinned by the repository's own tree
// tests, hence recorded rather than repaired). recheck must recompile the pattern and return true
// when the disagreement is gone. key is the finding's key for the calling property.
func NonboundaryAtomic(key string, recheck func() bool) bool {
	if !Enabled {
		return false
	}
	syntax.VerifSetNonboundaryAtomicRule(false)
	gone := false
	func() {
		defer func() { _ = recover() }()
		gone = recheck()
	}()
	syntax.VerifSetNonboundaryAtomicRule(true)
	if gone {
		h.Excluded(key)
	}
	return gone
}

// affectedByNotWordFold are the runes whose case orbit (SimpleFold plus the engine's lower-case
// table) straddles the ASCII word set: K (Kelvin) ~ k, ſ ~ s, İ -> i.
const affectedByNotWordFold = "iI\u0130\u0131kK\u212AsS\u017F"

// RE2IgnoreCaseNotWord attributes a disagreement to the finding "under RE2/ECMAScript with
// IgnoreCase the range-based \W is case-folded as a positive set, so it contains k, s (and i
// inside a bracket class)". The predicate is syntactic and narrow: the RE2 option, a \W under
// an effective IgnoreCase in the pattern, and one of the nine affected runes in the input.
func RE2IgnoreCaseNotWord(key string, root *ast.Node, re2 bool, input string) bool {
	if !Enabled || !re2 || root == nil || !strings.ContainsAny(input, affectedByNotWordFold) {
		return false
	}
	var inClass func(e *cls.Expr) bool
	inClass = func(e *cls.Expr) bool {
		if e == nil {
			return false
		}
		for _, it := range e.Items {
			if it.Kind == cls.Short && it.Name == "W" {
				return true
			}
		}
		return inClass(e.Sub)
	}
	if !root.Has(func(x *ast.Node) bool {
		return x.Eff.I && ((x.K == ast.KShort && x.S == "W") || (x.K == ast.KClass && inClass(x.C)))
	}) {
		return false
	}
	h.Excluded(key)
	return true
}
