// Package known implements the exclusion predicates of the findings listed as "known:" in
// /verif/KNOWN_FINDINGS.txt. A predicate is an attribution: a disagreement belongs to the finding
// only if it disappears when exactly the named engine rule is switched off (verif-tagged switch);
// anything else is still reported. Predicates are disabled in the replay tier, so that the
// finding's witness keeps failing (and is reported as KNOWN-FINDING) while the defect exists.
package known

import (
	"os"

	"github.com/dlclark/regexp2/v2/syntax"

	"verif/internal/h"
)

// Enabled is false in the replay tier.
var Enabled = os.Getenv("VERIF_TIER") != "replay"

// NonboundaryAtomic attributes a disagreement to the auto-atomicity rule that makes a loop over
// non-word / non-digit characters atomic when \B follows (pinned by the repository's own tree
// tests, hence recorded rather than repaired). recheck must recompile the pattern and return true
// when the disagreement is gone. key is the finding's key for the calling property.
func NonboundaryAtomic(key string, recheck func() bool) bool {
	if !Enabled {
		return false
	}
	syntax.VerifSetNonboundaryAtomicRule(false)
	gone := false
	func() {
		defer func() { _ = recover() }()
		gone = recheck()
	}()
	syntax.VerifSetNonboundaryAtomicRule(true)
	if gone {
		h.Excluded(key)
	}
	return gone
}
