// Package refprop is the shared machinery of C01 and C15: generate an F-core
// pattern, inputs and start offsets, and compare the engine's find result with
// the reference matcher (package refmatch).
package refprop

import (
	"fmt"
	"strings"
	"time"

	regexp2 "github.com/dlclark/regexp2/v2"
	"pgregory.net/rapid"

	"verif/internal/ast"
	"verif/internal/canon"
	"verif/internal/gen"
	"verif/internal/h"
	"verif/internal/known"
	"verif/internal/refmatch"
)

// Case is one generated (pattern, options, inputs) unit; it is also the replay format.
type Case struct {
	Pattern string    `json:"pattern"`
	AST     *ast.Node `json:"ast"`
	Base    ast.Opts  `json:"base"`
	RE2     bool      `json:"re2,omitempty"`
	RTL     bool      `json:"rtl,omitempty"`
	Inputs  []string  `json:"inputs,omitempty"` // valid UTF-8 only in this fragment
	Alpha   string    `json:"alpha,omitempty"`  // bounded-exhaustive leg: alphabet ...
	MaxLen  int       `json:"maxlen,omitempty"` // ... and length bound
	StartAt int       `json:"start_at,omitempty"`
	OneOff  bool      `json:"one_offset,omitempty"` // replay: only StartAt (otherwise every offset)
	Expect  string    `json:"expect,omitempty"`     // hand-checked expectation (table cases): the reference must reproduce it
}

const Budget = 200000

func Options(c Case) regexp2.RegexOptions {
	var o regexp2.RegexOptions
	if c.Base.I {
		o |= regexp2.IgnoreCase
	}
	if c.Base.M {
		o |= regexp2.Multiline
	}
	if c.Base.S {
		o |= regexp2.Singleline
	}
	if c.Base.N {
		o |= regexp2.ExplicitCapture
	}
	if c.Base.X {
		o |= regexp2.IgnorePatternWhitespace
	}
	if c.RE2 {
		o |= regexp2.RE2
	}
	if c.RTL {
		o |= regexp2.RightToLeft
	}
	return o
}

// Gen draws a case. rtl selects the C15 variant.
func Gen(t *rapid.T, rtl bool) Case {
	cfg := gen.Cfg{Depth: 4, Inline: "imsn", CaseSafe: true, NoBareCond: rtl}
	c := Case{RTL: rtl}
	letters := "imsnx"
	c.Base = gen.Opts(t, letters)
	if !rtl {
		c.RE2 = rapid.IntRange(0, 7).Draw(t, "re2") == 0
	}
	root := gen.Pattern(t, cfg)
	if rapid.IntRange(0, 4).Draw(t, "accelshape") == 0 {
		// shapes the candidate searches recognise; kept only if they stay inside the fragment
		// (every quantified body non-nullable and not itself a bare repeater)
		a := gen.Accel(t, gen.Cfg{Depth: 2, Inline: "ims", CaseSafe: true, NoBareCond: rtl})
		if inFragment(a) {
			root = a
		}
	}
	gen.Resolve(t, root, c.Base, false, cfg)
	// ExplicitCapture (option or inline) turns plain groups into non-capturing ones, which is only known now:
	// a quantifier whose body thereby became nullable-free but reducible to a bare repeater is outside the
	// fragment (the engine multiplies nested repeaters); it is neutralised to {1}
	root.Walk(func(x *ast.Node) {
		if x.K == ast.KQuant && ast.BareRepeater(x.Kids[0]) {
			x.Min, x.Max, x.Lazy = 1, 1, false
		}
	})
	c.AST = root
	po := ast.PrintOpts{}
	if c.Base.X || root.Has(func(x *ast.Node) bool { return x.K == ast.KOpt && strings.Contains(x.S, "x") }) {
		po.Blank = gen.Blanks(t)
	}
	c.Pattern = ast.Print(root, po)
	alpha := gen.Alphabet(root, c.RE2, 12)
	if rapid.IntRange(0, 3).Draw(t, "exhaustive") == 0 {
		k := rapid.IntRange(2, 4).Draw(t, "alphasize")
		if k > len(alpha) {
			k = len(alpha)
		}
		// a sub-sample: always the first (most pattern-specific) symbols, rotated by a drawn offset
		off := rapid.IntRange(0, len(alpha)-1).Draw(t, "alphaoff")
		var sub []rune
		for i := 0; i < k; i++ {
			sub = append(sub, alpha[(off+i)%len(alpha)])
		}
		c.Alpha = string(sub)
		c.MaxLen = map[int]int{1: 5, 2: 5, 3: 4, 4: 4}[k]
	} else {
		n := 10
		for i := 0; i < n; i++ {
			var in []rune
			if i%4 == 3 {
				in = gen.Random(t, alpha, 8)
			} else {
				in = gen.Directed(t, root, c.RE2, alpha, true, 10)
			}
			c.Inputs = append(c.Inputs, string(in))
		}
	}
	return c
}

func inFragment(n *ast.Node) bool {
	return !n.Has(func(x *ast.Node) bool {
		return x.K == ast.KQuant && (ast.Nullable(x.Kids[0]) || ast.BareRepeater(x.Kids[0]))
	})
}

func refString(r refmatch.Result, nums []int) string {
	if !r.Matched {
		return "nomatch"
	}
	var sb strings.Builder
	fmt.Fprintf(&sb, "(%d,%d)", r.I, r.L)
	for _, n := range nums {
		if n == 0 {
			continue
		}
		fmt.Fprintf(&sb, " %d[", n)
		for _, c := range r.Groups[n] {
			fmt.Fprintf(&sb, "(%d,%d)", c.I, c.L)
		}
		sb.WriteString("]")
	}
	return sb.String()
}

// Failure describes a disagreement, with the reduced case that reproduces it.
type Failure struct {
	Reduced Case
	Msg     string
}

func (f *Failure) Error() string { return f.Msg }

// Compiled bundles what Check needs per pattern.
type Compiled struct {
	Re   *regexp2.Regexp
	Info *ast.Info
	Nums []int
}

func Compile(c Case) (*Compiled, error) {
	re, err := regexp2.Compile(c.Pattern, Options(c))
	if err != nil {
		return nil, err
	}
	re.MatchTimeout = 5 * time.Second
	info := ast.Annotate(c.AST, c.Base, false)
	return &Compiled{Re: re, Info: info, Nums: re.GetGroupNumbers()}, nil
}

// Check compares engine and reference on every input and start offset. prop is "C01"/"C15".
func Check(c Case) error {
	cp, err := Compile(c)
	if err != nil {
		h.Discard("compile-error")
		h.Label("compile-error: " + firstWords(err.Error()))
		return nil
	}
	// the engine's group numbers must be the ones the documented rule predicts
	want := append([]int{0}, cp.Info.GroupNums...)
	if fmt.Sprint(want) != fmt.Sprint(cp.Nums) {
		return &Failure{Reduced: c, Msg: fmt.Sprintf("pattern %q: group numbers %v, documented rule gives %v", c.Pattern, cp.Nums, want)}
	}
	feats := ast.Features(c.AST)
	choice := ast.HasChoice(c.AST)
	lits := ast.LiteralRunes(c.AST)
	one := func(in []rune) error {
		lo, hi := 0, len(in)
		if c.OneOff {
			lo, hi = c.StartAt, c.StartAt
		}
		str := string(in)
		byteOffs := canon.ByteOffsets(str)
		roundTrips := len(byteOffs) == len(in)+1 && string([]rune(str)) == str && len([]rune(str)) == len(in)
		if roundTrips {
			for i, x := range []rune(str) {
				if x != in[i] {
					roundTrips = false
				}
			}
		}
		for at := lo; at <= hi; at++ {
			h.Eval()
			ref, ok := refmatch.Find(c.AST, in, refmatch.Global{RE2: c.RE2}, at, c.RTL, Budget)
			if !ok {
				h.Discard("budget")
				continue
			}
			m, err := cp.Re.FindRunesMatchStartingAt(in, at)
			if err != nil {
				if canon.ErrClass(err) == "timeout" {
					h.Discard("engine-timeout")
					continue
				}
				return fail(c, in, at, fmt.Sprintf("engine error %v", err))
			}
			if verr := canon.Validate(cp.Re, m, in, nil); verr != nil {
				return fail(c, in, at, "malformed match: "+verr.Error())
			}
			got := canon.FromMatch(cp.Re, m).String()
			exp := refString(ref, cp.Nums)
			if c.Expect != "" && exp != c.Expect {
				return fail(c, in, at, fmt.Sprintf("HARNESS: reference matcher gives %s, hand-checked expectation is %s", exp, c.Expect))
			}
			// labels
			if ref.Matched {
				h.Label("match")
			} else {
				h.Label("nomatch")
			}
			if (c.RTL && at < len(in)) || (!c.RTL && at > 0) {
				h.Label("startAt-inner")
			}
			nonASCII := false
			for _, r := range in {
				if r > 0x7f {
					nonASCII = true
					break
				}
			}
			h.LabelIf(nonASCII, "nonascii-input")
			nontrivial := ref.Matched && choice
			if !ref.Matched {
				for _, r := range in {
					for _, l := range lits {
						if r == l {
							nontrivial = true
						}
					}
				}
			}
			if nontrivial {
				key := fmt.Sprintf("%s|%v|%v|%v|%q|%d", c.Pattern, c.Base, c.RE2, c.RTL, string(in), at)
				h.NonTrivial(key, func() any {
					return map[string]any{"pattern": c.Pattern, "options": c.Base.Letters(), "re2": c.RE2, "rtl": c.RTL, "input": string(in), "start_at": at, "result": exp}
				})
			}
			// the string entry point (raw-string candidate filters, byte offset conversion) must agree too
			if got == exp && roundTrips {
				ms, err := cp.Re.FindStringMatchStartingAt(str, byteOffs[at])
				if err == nil {
					if gs := canon.FromMatch(cp.Re, ms).String(); gs != exp {
						return fail(c, in, at, fmt.Sprintf("FindStringMatchStartingAt (byte offset %d) %s, reference %s", byteOffs[at], gs, exp))
					}
				}
			}
			if got != exp {
				if !c.RTL && known.NonboundaryAtomic("c01-auto-atomic-nonboundary", func() bool {
					cp2, err := Compile(c)
					if err != nil {
						return false
					}
					m2, err := cp2.Re.FindRunesMatchStartingAt(in, at)
					return err == nil && canon.FromMatch(cp2.Re, m2).String() == exp
				}) {
					continue
				}
				return fail(c, in, at, fmt.Sprintf("engine %s, reference %s", got, exp))
			}
		}
		return nil
	}
	h.Label("patterns")
	for _, f := range feats {
		h.Label("feat:" + f)
	}
	if c.Alpha != "" {
		h.Label("exhaustive-pattern")
		var ferr error
		gen.Exhaustive([]rune(c.Alpha), c.MaxLen, func(in []rune) bool {
			ferr = one(in)
			return ferr == nil
		})
		return ferr
	}
	h.Label("directed-pattern")
	for _, s := range c.Inputs {
		if err := one([]rune(s)); err != nil {
			return err
		}
	}
	return nil
}

func fail(c Case, in []rune, at int, msg string) error {
	r := c
	r.Inputs = []string{string(in)}
	r.Alpha, r.MaxLen = "", 0
	r.StartAt, r.OneOff = at, true
	return &Failure{Reduced: r, Msg: fmt.Sprintf("pattern %q opts=%q re2=%v rtl=%v input=%q startAt=%d: %s", c.Pattern, c.Base.Letters(), c.RE2, c.RTL, string(in), at, msg)}
}

func firstWords(s string) string {
	if i := strings.Index(s, "`"); i > 0 {
		s = s[:i]
	}
	if len(s) > 60 {
		s = s[:60]
	}
	return s
}

// Run is the body of TestProp for C01/C15.
func Run(t *rapid.T, rtl bool) {
	c := Gen(t, rtl)
	err := h.Safely(func() error {
		if err := Check(c); err != nil {
			return err
		}
		return CheckMirror(c)
	})
	if err != nil {
		red := c
		if f, ok := err.(*Failure); ok {
			red = f.Reduced
		}
		h.Violation(t, red, "%s", err.Error())
	}
}
