package refprop

import (
	"verif/internal/ast"
	"verif/internal/cls"
)

// TableEntry is one hand-checked (pattern, options, input, offset, expected result) triple.
// Expected uses the canonical string form "(i,l) n[(i,l)...]" / "nomatch".
type TableEntry struct {
	Name   string
	AST    *ast.Node
	Base   ast.Opts
	RE2    bool
	RTL    bool
	Input  string
	At     int
	Expect string
	Origin string // where the expectation comes from
}

func ch(r rune) cls.Item      { return cls.Item{Kind: cls.Char, Lo: r} }
func rg(lo, hi rune) cls.Item { return cls.Item{Kind: cls.Range, Lo: lo, Hi: hi} }
func sh(n string) cls.Item    { return cls.Item{Kind: cls.Short, Name: n} }
func cl(items ...cls.Item) *ast.Node {
	return ast.Class(&cls.Expr{Items: items})
}
func ncl(items ...cls.Item) *ast.Node {
	return ast.Class(&cls.Expr{Neg: true, Items: items})
}
func sub(base *ast.Node, s *ast.Node) *ast.Node {
	base.C.Sub = s.C
	return base
}
func capg(k *ast.Node) *ast.Node { return ast.Group(ast.GCap, k) }
func named(n string, k *ast.Node) *ast.Node {
	g := ast.Group(ast.GNamed, k)
	g.S = n
	return g
}
func star(k *ast.Node) *ast.Node { return ast.Quant(k, 0, -1, false) }
func plus(k *ast.Node) *ast.Node { return ast.Quant(k, 1, -1, false) }
func opt(k *ast.Node) *ast.Node  { return ast.Quant(k, 0, 1, false) }
func lazy(q *ast.Node) *ast.Node { q.Lazy = true; return q }
func ref(n int) *ast.Node        { return &ast.Node{K: ast.KBackref, Num: n} }
func refn(s string) *ast.Node    { return &ast.Node{K: ast.KBackref, S: s} }
func short(s string) *ast.Node   { return &ast.Node{K: ast.KShort, S: s} }
func cond(test, yes, no *ast.Node) *ast.Node {
	return &ast.Node{K: ast.KCond, Kids: []*ast.Node{test, yes, no}}
}
func condg(n int, yes, no *ast.Node) *ast.Node {
	return &ast.Node{K: ast.KCond, Num: n, Kids: []*ast.Node{nil, yes, no}}
}
func optsw(on, off string) *ast.Node { return &ast.Node{K: ast.KOpt, S: on, S2: off} }
func optsc(on, off string, k *ast.Node) *ast.Node {
	return &ast.Node{K: ast.KOpt, S: on, S2: off, Kids: []*ast.Node{k}}
}

// Table is the hand-checked table guarding the reference matcher, plus the witnesses of
// defects that were repaired in /repo (Origin "fixed: ...").
var Table = []TableEntry{
	{Name: "fixed-re2-ignorecase-notword", AST: short("W"), Base: ast.Opts{I: true}, RE2: true, Input: "k", Expect: "nomatch",
		Origin: "fixed: c0cab0c k is an ASCII word character, so \\W cannot match it whatever the case rule; the engine folds the complement ranges and K (KELVIN SIGN) brings k in"},

	// --- documented basics (.NET regular-expression language reference)
	{Name: "alt-first-wins", AST: ast.Alt(ast.Str("a"), ast.Str("ab")), Input: "ab", Expect: "(0,1)", Origin: ".NET docs: alternation tries left to right"},
	{Name: "greedy-star", AST: ast.Seq(star(ast.Lit('a')), ast.Lit('a')), Input: "aaa", Expect: "(0,3)", Origin: "greedy backs off one"},
	{Name: "lazy-star", AST: ast.Seq(lazy(star(ast.Lit('a'))), ast.Lit('b')), Input: "aab", Expect: "(0,3)", Origin: "lazy expands"},
	{Name: "lazy-min", AST: lazy(plus(ast.Lit('a'))), Input: "aaa", Expect: "(0,1)", Origin: "lazy takes minimum"},
	{Name: "capture-last-iteration", AST: plus(capg(cl(rg('a', 'c')))), Input: "abc", Expect: "(0,3) 1[(0,1)(1,1)(2,1)]", Origin: ".NET docs: a group keeps every capture"},
	{Name: "capture-undone-on-backtrack", AST: ast.Seq(opt(capg(ast.Lit('a'))), ast.Str("ab")), Input: "ab", Expect: "(0,2) 1[]", Origin: "captures are undone by backtracking"},
	{Name: "backref", AST: ast.Seq(capg(plus(cl(rg('a', 'b')))), ref(1)), Input: "abab", Expect: "(0,4) 1[(0,2)]", Origin: ".NET docs backreference"},
	{Name: "backref-unset-fails", AST: ast.Seq(opt(capg(ast.Lit('a'))), ref(1), ast.Lit('b')), Input: "b", Expect: "nomatch", Origin: ".NET: reference to a group without capture fails"},
	{Name: "named-after-unnamed", AST: ast.Seq(named("x", ast.Lit('a')), capg(ast.Lit('b'))), Input: "ab", Expect: "(0,2) 1[(1,1)] 2[(0,1)]", Origin: ".NET docs: named groups are numbered after unnamed"},
	{Name: "lookahead-keeps-captures", AST: ast.Seq(ast.Group(ast.GLookahead, capg(ast.Lit('a'))), ast.Lit('a')), Input: "a", Expect: "(0,1) 1[(0,1)]", Origin: "positive lookaround keeps captures"},
	{Name: "neg-lookahead", AST: ast.Seq(ast.Lit('a'), ast.Group(ast.GNegLookahead, ast.Lit('b'))), Input: "abac", Expect: "(2,1)", Origin: ".NET docs negative lookahead"},
	{Name: "lookbehind", AST: ast.Seq(ast.Group(ast.GLookbehind, ast.Lit('a')), ast.Lit('b')), Input: "bab", Expect: "(2,1)", Origin: ".NET docs lookbehind"},
	{Name: "lookbehind-capture-span", AST: ast.Seq(ast.Group(ast.GLookbehind, capg(ast.Str("ab"))), ast.Lit('c')), Input: "abc", Expect: "(2,1) 1[(0,2)]", Origin: "captures are (start,length) spans in any direction"},
	{Name: "lookbehind-rtl-greedy", AST: ast.Seq(ast.Group(ast.GLookbehind, ast.Seq(capg(plus(ast.Lit('a'))), capg(plus(ast.Lit('a'))))), ast.Lit('b')), Input: "aaab", Expect: "(3,1) 1[(0,1)] 2[(1,2)]", Origin: "lookbehind content runs right to left: the last loop is greedy first"},
	{Name: "atomic-no-giveback", AST: ast.Seq(ast.Group(ast.GAtomic, star(ast.Lit('a'))), ast.Lit('a')), Input: "aaa", Expect: "nomatch", Origin: ".NET docs atomic group"},
	{Name: "atomic-alt", AST: ast.Seq(ast.Group(ast.GAtomic, ast.Alt(ast.Str("a"), ast.Str("ab"))), ast.Lit('c')), Input: "abc", Expect: "nomatch", Origin: "atomic alternation commits to first branch"},
	{Name: "cond-group", AST: ast.Seq(opt(capg(ast.Lit('a'))), condg(1, ast.Lit('b'), ast.Lit('c'))), Input: "ab", Expect: "(0,2) 1[(0,1)]", Origin: ".NET docs conditional on group"},
	{Name: "cond-group-no", AST: ast.Seq(opt(capg(ast.Lit('a'))), condg(1, ast.Lit('b'), ast.Lit('c'))), Input: "c", Expect: "(0,1) 1[]", Origin: "conditional: group not matched"},
	{Name: "cond-lookahead", AST: cond(ast.Group(ast.GLookahead, ast.Lit('a')), ast.Str("ab"), ast.Lit('c')), Input: "cab", Expect: "(0,1)", Origin: ".NET docs conditional with expression"},
	{Name: "cond-test-atomic", AST: ast.Seq(cond(ast.Group(ast.GLookahead, capg(ast.Alt(ast.Str("a"), ast.Str("ab")))), ast.Str("abc"), ast.Lit('x'))), Input: "abc", Expect: "(0,3) 1[(0,1)]", Origin: "the test is an atomic zero-width assertion; captures kept"},
	{Name: "multiline-caret", AST: ast.Seq(ast.Anchor("^"), ast.Lit('b')), Base: ast.Opts{M: true}, Input: "a\nb", Expect: "(2,1)", Origin: ".NET docs Multiline"},
	{Name: "dollar-before-final-newline", AST: ast.Seq(ast.Lit('a'), ast.Anchor("$")), Input: "a\n", Expect: "(0,1)", Origin: ".NET docs: $ matches before a final newline"},
	{Name: "dollar-re2-absolute", AST: ast.Seq(ast.Lit('a'), ast.Anchor("$")), RE2: true, Input: "a\n", Expect: "nomatch", Origin: "README: RE2 mode $ is end of text"},
	{Name: "bigZ", AST: ast.Seq(ast.Lit('a'), ast.Anchor(`\Z`)), Input: "a\n", Expect: "(0,1)", Origin: `.NET docs \Z`},
	{Name: "smallz", AST: ast.Seq(ast.Lit('a'), ast.Anchor(`\z`)), Input: "a\n", Expect: "nomatch", Origin: `.NET docs \z`},
	{Name: "G-at-start-offset", AST: ast.Seq(ast.Anchor(`\G`), ast.Lit('a')), Input: "baa", At: 1, Expect: "(1,1)", Origin: `.NET docs \G`},
	{Name: "G-does-not-move", AST: ast.Seq(ast.Anchor(`\G`), ast.Lit('a')), Input: "bba", At: 1, Expect: "nomatch", Origin: `\G is the start offset only`},
	{Name: "word-boundary", AST: ast.Seq(ast.Anchor(`\b`), ast.Lit('b')), Input: "ab b", Expect: "(3,1)", Origin: `.NET docs \b`},
	{Name: "singleline-dot", AST: ast.Seq(ast.Lit('a'), ast.Dot(), ast.Lit('b')), Base: ast.Opts{S: true}, Input: "a\nb", Expect: "(0,3)", Origin: ".NET docs Singleline"},
	{Name: "dot-no-newline", AST: ast.Seq(ast.Lit('a'), ast.Dot(), ast.Lit('b')), Input: "a\nb", Expect: "nomatch", Origin: ". excludes newline"},
	{Name: "ignorecase-lit", AST: ast.Str("aB"), Base: ast.Opts{I: true}, Input: "Ab", Expect: "(0,2)", Origin: "IgnoreCase"},
	{Name: "ignorecase-backref", AST: ast.Seq(capg(ast.Lit('a')), ref(1)), Base: ast.Opts{I: true}, Input: "aA", Expect: "(0,2) 1[(0,1)]", Origin: "IgnoreCase backreference"},
	{Name: "explicit-capture", AST: ast.Seq(capg(ast.Lit('a')), named("n", ast.Lit('b'))), Base: ast.Opts{N: true}, Input: "ab", Expect: "(0,2) 1[(1,1)]", Origin: ".NET docs ExplicitCapture"},
	{Name: "inline-switch-scope", AST: ast.Seq(ast.Group(ast.GNon, ast.Seq(optsw("i", ""), ast.Lit('a'))), ast.Lit('a')), Input: "Aa", Expect: "(0,2)", Origin: "(?i) lasts to the end of the enclosing group"},
	{Name: "inline-switch-scope-2", AST: ast.Seq(ast.Group(ast.GNon, ast.Seq(optsw("i", ""), ast.Lit('a'))), ast.Lit('a')), Input: "AA", Expect: "nomatch", Origin: "(?i) does not leak out of its group"},
	{Name: "inline-scoped", AST: ast.Seq(optsc("i", "", ast.Lit('a')), ast.Lit('b')), Input: "AB", Expect: "nomatch", Origin: "(?i:...)"},
	{Name: "inline-off", AST: ast.Seq(ast.Lit('a'), optsw("", "i"), ast.Lit('b')), Base: ast.Opts{I: true}, Input: "AB", Expect: "nomatch", Origin: "(?-i)"},
	{Name: "startat-skips", AST: ast.Lit('a'), Input: "aba", At: 1, Expect: "(2,1)", Origin: "start offset"},
	{Name: "class-subtraction", AST: plus(sub(cl(rg('a', 'z')), cl(ch('b')))), Input: "abc", Expect: "(0,1)", Origin: ".NET docs character class subtraction"},
	{Name: "neg-class-newline", AST: ncl(ch('a')), Input: "\n", Expect: "(0,1)", Origin: "negated class matches newline"},
	{Name: "counted", AST: ast.Quant(ast.Lit('a'), 2, 3, false), Input: "aaaa", Expect: "(0,3)", Origin: "{2,3} greedy"},
	{Name: "counted-lazy", AST: ast.Quant(ast.Lit('a'), 2, 3, true), Input: "aaaa", Expect: "(0,2)", Origin: "{2,3}? lazy"},
	{Name: "group-loop-backtrack", AST: ast.Seq(star(capg(ast.Alt(ast.Str("a"), ast.Str("ab")))), ast.Lit('c')), Input: "aabc", Expect: "(0,4) 1[(0,1)(1,2)]", Origin: "loop iterations keep their captures in order"},
	// --- right to left
	{Name: "rtl-basic", AST: ast.Str("ab"), RTL: true, Input: "abab", At: 4, Expect: "(2,2)", Origin: ".NET docs RightToLeft"},
	{Name: "rtl-greedy-last-first", AST: ast.Seq(capg(plus(ast.Lit('a'))), capg(plus(ast.Lit('a')))), RTL: true, Input: "aaa", At: 3, Expect: "(0,3) 1[(0,1)] 2[(1,2)]", Origin: "concatenation evaluated last to first"},
	{Name: "rtl-lookahead-forward", AST: ast.Seq(ast.Lit('a'), ast.Group(ast.GLookahead, ast.Lit('b'))), RTL: true, Input: "acab", At: 4, Expect: "(2,1)", Origin: "lookahead still looks rightwards"},
	{Name: "rtl-startat", AST: ast.Lit('a'), RTL: true, Input: "aba", At: 2, Expect: "(0,1)", Origin: "attempt positions descend from the start offset"},
	// --- witnesses of repaired defects
	{Name: "fixed-negcat-hides-later", AST: cl(sh("W"), sh("d")), Input: "5", Expect: "(0,1)", Origin: "fixed: 34b5923"},
	{Name: "fixed-canonicalize-midbuild", AST: cl(sh("D"), ch('1')), RE2: true, Input: "1", Expect: "(0,1)", Origin: "fixed: e6b4aba"},
	{Name: "fixed-notone-merge", AST: ast.Alt(ast.Lit(' '), ast.Dot()), Input: " yA0", Expect: "(0,1)", Origin: "fixed: 494a65e"},
	{Name: "fixed-ignorenextparen-leak", AST: ast.Seq(cond(ast.Group(ast.GLookahead, ast.Lit('a')), ast.Lit('a'), ast.Lit('c')), capg(ast.Lit('d'))), Input: "ad", Expect: "(0,2) 1[(1,1)]", Origin: "fixed: 44ab9c3"},
	{Name: "fixed-subtraction-ignorecase", AST: sub(cl(rg('a', 'z')), cl(ch('b'))), Base: ast.Opts{I: true}, Input: "B", Expect: "nomatch", Origin: "fixed: 028077e"},
	{Name: "fixed-rtl-loop-multi", AST: ast.Seq(ast.Str("ab"), star(ast.Lit('a'))), RTL: true, Input: "abaa", At: 4, Expect: "(0,4)", Origin: "fixed: 3a35cc2"},
	{Name: "fixed-lookbehind-loop-multi", AST: ast.Seq(ast.Group(ast.GLookbehind, ast.Seq(ast.Str("ab"), star(ast.Lit('a')))), ast.Lit('c')), Input: "abaac", Expect: "(4,1)", Origin: "fixed: 3a35cc2 (same root cause inside a lookbehind)"},
}

// FindingWitnesses are the witnesses of findings that are recorded (not repaired); Name is the key.
var FindingWitnesses = []TableEntry{
	{Name: "c01-auto-atomic-nonboundary", AST: ast.Seq(plus(short("W")), ast.Anchor(`\B`)), Input: "  a", Expect: "(0,1)",
		Origin: "backtracking semantics: \\W+ gives one blank back, after which \\B holds between the two blanks"},
}

// TableCase converts an entry to a replayable Case.
func TableCase(e TableEntry) Case {
	root := e.AST.Clone()
	ast.Annotate(root, e.Base, false)
	return Case{
		Pattern: ast.Print(root, ast.PrintOpts{}),
		AST:     root, Base: e.Base, RE2: e.RE2, RTL: e.RTL,
		Inputs: []string{e.Input}, StartAt: e.At, OneOff: true, Expect: e.Expect,
	}
}
