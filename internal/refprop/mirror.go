package refprop

import (
	"fmt"
	"time"

	regexp2 "github.com/dlclark/regexp2/v2"
	"github.com/dlclark/regexp2/v2/syntax"

	"verif/internal/ast"
	"verif/internal/canon"
	"verif/internal/h"
)

// mirrorable: no lookarounds, backreferences, conditionals, inline options, and only the
// symmetric anchors (\A <-> \z, \b, \B).
func mirrorable(n *ast.Node) bool {
	return !n.Has(func(x *ast.Node) bool {
		switch x.K {
		case ast.KBackref, ast.KCond, ast.KOpt, ast.KRaw:
			return true
		case ast.KGroup:
			return x.IsLook()
		case ast.KAnchor:
			return x.S == "^" || x.S == "$" || x.S == `\Z` || x.S == `\G`
		}
		return false
	})
}

// mirror builds the reversed pattern and records which node of the mirror corresponds to which original group.
func mirror(n *ast.Node, pairs map[*ast.Node]*ast.Node) *ast.Node {
	c := *n
	c.R = nil
	for i := len(n.R) - 1; i >= 0; i-- {
		c.R = append(c.R, n.R[i])
	}
	c.Kids = nil
	if n.K == ast.KSeq {
		for i := len(n.Kids) - 1; i >= 0; i-- {
			c.Kids = append(c.Kids, mirror(n.Kids[i], pairs))
		}
	} else {
		for _, k := range n.Kids {
			c.Kids = append(c.Kids, mirror(k, pairs))
		}
	}
	if n.K == ast.KAnchor {
		switch n.S {
		case `\A`:
			c.S = `\z`
		case `\z`:
			c.S = `\A`
		}
	}
	out := &c
	if n.K == ast.KGroup {
		pairs[n] = out
	}
	return out
}

// CheckMirror is the oracle-independent leg of C15: match_RTL(P, t) is the mirror image of
// match_LTR(reverse(P), reverse(t)), captures included.
func CheckMirror(c Case) error {
	if !c.RTL || c.AST == nil || !mirrorable(c.AST) {
		return nil
	}
	pairs := map[*ast.Node]*ast.Node{}
	rev := mirror(c.AST, pairs)
	ast.Annotate(c.AST, c.Base, false)
	ast.Annotate(rev, c.Base, false)
	revText := ast.Print(rev, ast.PrintOpts{})
	lc := c
	lc.RTL = false
	reR, err := regexp2.Compile(c.Pattern, Options(c))
	if err != nil {
		return nil
	}
	// The left-to-right side is the reference of this leg. Its one recorded defect (KNOWN_FINDINGS
	// c05-/c01-auto-atomic-nonboundary: \D+\B made atomic) must not leak into the reference, so that
	// rule is switched off while the mirrored pattern is compiled; right-to-left compilation never uses it.
	syntax.VerifSetNonboundaryAtomicRule(false)
	reL, err := regexp2.Compile(revText, Options(lc))
	syntax.VerifSetNonboundaryAtomicRule(true)
	if err != nil {
		return nil
	}
	reR.MatchTimeout, reL.MatchTimeout = 5*time.Second, 5*time.Second
	// group number correspondence: original number -> mirrored number
	numMap := map[int]int{0: 0}
	for o, m := range pairs {
		if o.Cap > 0 {
			numMap[o.Cap] = m.Cap
		}
	}
	inputs := c.Inputs
	if c.Alpha != "" {
		inputs = nil
	}
	for _, s := range inputs {
		t := []rune(s)
		n := len(t)
		rt := make([]rune, n)
		for i, x := range t {
			rt[n-1-i] = x
		}
		lo, hi := 0, n
		if c.OneOff {
			lo, hi = c.StartAt, c.StartAt
		}
		for at := lo; at <= hi; at++ {
			h.Eval()
			mR, err1 := reR.FindRunesMatchStartingAt(t, at)
			mL, err2 := reL.FindRunesMatchStartingAt(rt, n-at)
			if err1 != nil || err2 != nil {
				h.Discard("engine-timeout")
				continue
			}
			a := canon.FromMatch(reR, mR)
			b := canon.FromMatch(reL, mL)
			ok := a.Matched == b.Matched
			if ok && a.Matched {
				ok = a.I == n-b.I-b.L && a.L == b.L
				for gi, num := range a.Nums {
					if !ok {
						break
					}
					// find the mirrored group
					var other []canon.Span
					found := false
					for gj, num2 := range b.Nums {
						if num2 == numMap[num] {
							other, found = b.Groups[gj], true
						}
					}
					if !found || len(other) != len(a.Groups[gi]) {
						ok = false
						break
					}
					for k, sp := range a.Groups[gi] {
						if sp.I != n-other[k].I-other[k].L || sp.L != other[k].L {
							ok = false
						}
					}
				}
			}
			h.Label("mirror-leg")
			if !ok {
				return fail(c, t, at, fmt.Sprintf("right-to-left result %s is not the mirror image of the left-to-right result %s of the reversed pattern %q on the reversed input %q (offset %d)", a, b, revText, string(rt), n-at))
			}
		}
	}
	return nil
}
