// Package refmatch is the executable specification of leftmost, priority-ordered
// backtracking matching over the harness AST. It is written from the documented
// semantics, never sees the compiled program and shares no code with regexp2.
package refmatch

import (
	"unicode"

	"verif/internal/ast"
	"verif/internal/cls"
)

type Span struct{ I, L int }

// Result is the canonical outcome of a search.
type Result struct {
	Matched bool
	I, L    int
	Groups  map[int][]Span // capture number -> ordered captures (absent = none)
}

// Global are the non-inline options.
type Global struct {
	RE2  bool
	ECMA bool
}

type capLog struct {
	prev *capLog
	g    int
	s    Span
}

type matcher struct {
	in     []rune
	g      Global
	origin int // \G
	steps  int
	budget int
	over   bool
}

type cont func(pos int, caps *capLog) bool

func (m *matcher) clsOpts(o ast.Opts) cls.Opts { return cls.Opts{I: o.I, RE2: m.g.RE2, ECMA: m.g.ECMA} }

func lastCap(c *capLog, g int) (Span, bool) {
	for ; c != nil; c = c.prev {
		if c.g == g {
			return c.s, true
		}
	}
	return Span{}, false
}

func (m *matcher) isWordB(r rune) bool {
	if m.g.ECMA {
		return unicode.In(r, unicode.L, unicode.Mn, unicode.Nd, unicode.Pc)
	}
	return cls.IsWord(r)
}

func (m *matcher) m(n *ast.Node, pos, dir int, caps *capLog, k cont) bool {
	m.steps++
	if m.steps > m.budget {
		m.over = true
	}
	if m.over {
		return false
	}
	next := func() (rune, bool) {
		if dir > 0 {
			if pos >= len(m.in) {
				return 0, false
			}
			return m.in[pos], true
		}
		if pos <= 0 {
			return 0, false
		}
		return m.in[pos-1], true
	}
	o := n.Eff
	switch n.K {
	case ast.KEmpty, ast.KComment:
		return k(pos, caps)
	case ast.KOpt:
		if len(n.Kids) == 0 {
			return k(pos, caps)
		}
		return m.m(n.Kids[0], pos, dir, caps, k)
	case ast.KLit:
		p := pos
		for i := range n.R {
			var want rune
			if dir > 0 {
				want = n.R[i]
				if p >= len(m.in) {
					return false
				}
				r := m.in[p]
				if r != want && !(o.I && cls.FoldEq(r, want)) {
					return false
				}
				p++
			} else {
				want = n.R[len(n.R)-1-i]
				if p <= 0 {
					return false
				}
				r := m.in[p-1]
				if r != want && !(o.I && cls.FoldEq(r, want)) {
					return false
				}
				p--
			}
		}
		return k(p, caps)
	case ast.KDot:
		r, ok := next()
		if !ok || (r == '\n' && !o.S) {
			return false
		}
		return k(pos+dir, caps)
	case ast.KClass:
		r, ok := next()
		if !ok || !cls.In(r, n.C, m.clsOpts(o)) {
			return false
		}
		return k(pos+dir, caps)
	case ast.KShort:
		r, ok := next()
		if !ok || !cls.ShortIn(n.S[0], r, m.clsOpts(o)) {
			return false
		}
		return k(pos+dir, caps)
	case ast.KProp:
		r, ok := next()
		if !ok {
			return false
		}
		it := cls.Item{Kind: cls.Prop, Name: n.S, Neg: n.Neg}
		if !cls.In(r, &cls.Expr{Items: []cls.Item{it}}, m.clsOpts(o)) {
			return false
		}
		return k(pos+dir, caps)
	case ast.KAnchor:
		L := len(m.in)
		ok := false
		switch n.S {
		case "^":
			ok = pos == 0 || (o.M && m.in[pos-1] == '\n')
		case "$":
			if o.M {
				ok = pos == L || m.in[pos] == '\n'
			} else if m.g.RE2 || m.g.ECMA {
				ok = pos == L
			} else {
				ok = pos == L || (pos == L-1 && m.in[pos] == '\n')
			}
		case `\A`:
			ok = pos == 0
		case `\z`:
			ok = pos == L
		case `\Z`:
			if m.g.RE2 || m.g.ECMA {
				ok = pos == L
			} else {
				ok = pos == L || (pos == L-1 && m.in[pos] == '\n')
			}
		case `\G`:
			ok = pos == m.origin
		case `\b`, `\B`:
			a := pos > 0 && m.isWordB(m.in[pos-1])
			b := pos < L && m.isWordB(m.in[pos])
			ok = (a != b) == (n.S == `\b`)
		}
		if !ok {
			return false
		}
		return k(pos, caps)
	case ast.KSeq:
		return m.seq(n.Kids, pos, dir, caps, k)
	case ast.KAlt:
		for _, b := range n.Kids {
			if m.m(b, pos, dir, caps, k) {
				return true
			}
			if m.over {
				return false
			}
		}
		return false
	case ast.KGroup:
		switch n.G {
		case ast.GNon:
			return m.m(n.Kids[0], pos, dir, caps, k)
		case ast.GCap, ast.GNamed, ast.GNumbered, ast.GPyNamed:
			if n.Cap <= 0 {
				return m.m(n.Kids[0], pos, dir, caps, k)
			}
			start := pos
			return m.m(n.Kids[0], pos, dir, caps, func(p int, c *capLog) bool {
				lo, hi := start, p
				if lo > hi {
					lo, hi = hi, lo
				}
				return k(p, &capLog{prev: c, g: n.Cap, s: Span{lo, hi - lo}})
			})
		case ast.GAtomic:
			var rp int
			var rc *capLog
			if !m.m(n.Kids[0], pos, dir, caps, func(p int, c *capLog) bool { rp, rc = p, c; return true }) {
				return false
			}
			return k(rp, rc)
		case ast.GLookahead, ast.GLookbehind:
			d := 1
			if n.G == ast.GLookbehind {
				d = -1
			}
			var rc *capLog
			if !m.m(n.Kids[0], pos, d, caps, func(p int, c *capLog) bool { rc = c; return true }) {
				return false
			}
			return k(pos, rc)
		case ast.GNegLookahead, ast.GNegLookbehind:
			d := 1
			if n.G == ast.GNegLookbehind {
				d = -1
			}
			if m.m(n.Kids[0], pos, d, caps, func(p int, c *capLog) bool { return true }) {
				return false
			}
			if m.over {
				return false
			}
			return k(pos, caps)
		}
		return false
	case ast.KQuant:
		return m.quant(n, 0, pos, dir, caps, k)
	case ast.KBackref:
		s, ok := lastCap(caps, n.Cap)
		if !ok {
			return false
		}
		if dir > 0 {
			if pos+s.L > len(m.in) {
				return false
			}
			for i := 0; i < s.L; i++ {
				if !m.refEq(m.in[s.I+i], m.in[pos+i], o.I) {
					return false
				}
			}
			return k(pos+s.L, caps)
		}
		if pos-s.L < 0 {
			return false
		}
		for i := 0; i < s.L; i++ {
			if !m.refEq(m.in[s.I+i], m.in[pos-s.L+i], o.I) {
				return false
			}
		}
		return k(pos-s.L, caps)
	case ast.KCond:
		no := n.Kids[2]
		if no == nil {
			no = &ast.Node{K: ast.KEmpty, Eff: n.Eff}
		}
		test := n.Kids[0]
		if test == nil {
			if _, ok := lastCap(caps, n.Cap); ok {
				return m.m(n.Kids[1], pos, dir, caps, k)
			}
			return m.m(no, pos, dir, caps, k)
		}
		neg := false
		d := dir
		body := test
		if test.IsLook() {
			neg = test.G == ast.GNegLookahead || test.G == ast.GNegLookbehind
			d = 1
			if test.G == ast.GLookbehind || test.G == ast.GNegLookbehind {
				d = -1
			}
			body = test.Kids[0]
		} else if test.K == ast.KGroup {
			// parenthesised bare expression: a zero-width positive assertion in the current direction
			body = test
		}
		var rc *capLog
		ok := m.m(body, pos, d, caps, func(p int, c *capLog) bool { rc = c; return true })
		if m.over {
			return false
		}
		if neg {
			ok = !ok
			rc = caps
		}
		if ok {
			return m.m(n.Kids[1], pos, dir, rc, k)
		}
		return m.m(no, pos, dir, caps, k)
	}
	return false
}

func (m *matcher) refEq(a, b rune, ic bool) bool {
	if a == b {
		return true
	}
	return ic && cls.FoldEq(a, b)
}

func (m *matcher) seq(kids []*ast.Node, pos, dir int, caps *capLog, k cont) bool {
	if len(kids) == 0 {
		return k(pos, caps)
	}
	if dir > 0 {
		return m.m(kids[0], pos, dir, caps, func(p int, c *capLog) bool { return m.seq(kids[1:], p, dir, c, k) })
	}
	last := len(kids) - 1
	return m.m(kids[last], pos, dir, caps, func(p int, c *capLog) bool { return m.seq(kids[:last], p, dir, c, k) })
}

func (m *matcher) quant(n *ast.Node, count, pos, dir int, caps *capLog, k cont) bool {
	body := n.Kids[0]
	more := func() bool {
		if n.Max >= 0 && count >= n.Max {
			return false
		}
		return m.m(body, pos, dir, caps, func(p int, c *capLog) bool {
			if p == pos && count >= n.Min {
				// an empty iteration once the minimum is met ends the loop (fragment bodies are
				// non-nullable, so this is only a guard against divergence)
				return false
			}
			return m.quant(n, count+1, p, dir, c, k)
		})
	}
	if count < n.Min {
		return more()
	}
	if n.Lazy {
		if k(pos, caps) {
			return true
		}
		if m.over {
			return false
		}
		return more()
	}
	if more() {
		return true
	}
	if m.over {
		return false
	}
	return k(pos, caps)
}

// Find runs the search. root must have been annotated (ast.Annotate). ok=false means
// the step budget was exhausted (case must be discarded).
func Find(root *ast.Node, in []rune, g Global, startAt int, rtl bool, budget int) (res Result, ok bool) {
	m := &matcher{in: in, g: g, origin: startAt, budget: budget}
	dir, stop := 1, len(in)
	if rtl {
		dir, stop = -1, 0
	}
	for p := startAt; ; p += dir {
		var r Result
		if m.m(root, p, dir, nil, func(e int, c *capLog) bool {
			lo, hi := p, e
			if lo > hi {
				lo, hi = hi, lo
			}
			r = Result{Matched: true, I: lo, L: hi - lo, Groups: map[int][]Span{}}
			for ; c != nil; c = c.prev {
				r.Groups[c.g] = append([]Span{c.s}, r.Groups[c.g]...)
			}
			return true
		}) {
			return r, true
		}
		if m.over {
			return Result{}, false
		}
		if p == stop {
			return Result{}, true
		}
	}
}
