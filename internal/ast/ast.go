// Package ast is the harness's own pattern AST, with printers (canonical and
// x-mode), the analyses the generators need (nullability, bare repeaters) and
// the annotation pass that resolves inline options and capture numbers by the
// documented rules. It shares no code with regexp2.
package ast

import (
	"fmt"
	"sort"
	"strings"

	"verif/internal/cls"
)

type Kind int

const (
	KLit     Kind = iota // R: one or more literal runes
	KDot                 // .
	KClass               // C
	KShort               // S = d w s D W S (outside a class)
	KProp                // \p{S} / \P{S} (Neg)
	KAnchor              // S = ^ $ \A \z \Z \b \B \G
	KSeq                 //
	KAlt                 //
	KGroup               // G, S (name), Num (explicit number), S2 (balancing: uncapture name)
	KQuant               // Min, Max (-1 = inf), Lazy
	KBackref             // Num or S (name)
	KCond                // Kids[0] = test (nil if group test: Num / S), Kids[1] yes, Kids[2] no (may be nil)
	KOpt                 // inline options: S = on letters, S2 = off letters; Kids empty => switch, else scoped
	KEmpty               //
	KComment             // (?#...) S = text
	KRaw                 // S = raw pattern text (corpus splice); opaque
)

type GKind int

const (
	GCap           GKind = iota // ( )
	GNamed                      // (?<name> )
	GNumbered                   // (?<12> )
	GNon                        // (?: )
	GAtomic                     // (?> )
	GLookahead                  // (?= )
	GNegLookahead               // (?! )
	GLookbehind                 // (?<= )
	GNegLookbehind              // (?<! )
	GBalance                    // (?<name-name2> ) / (?<-name2> )
	GPyNamed                    // (?P<name> )  (RE2 dialect)
)

type Node struct {
	K    Kind      `json:"k"`
	R    []rune    `json:"r,omitempty"`
	C    *cls.Expr `json:"c,omitempty"`
	S    string    `json:"s,omitempty"`
	S2   string    `json:"s2,omitempty"`
	Neg  bool      `json:"neg,omitempty"`
	Kids []*Node   `json:"kids,omitempty"`
	G    GKind     `json:"g,omitempty"`
	Num  int       `json:"num,omitempty"`
	Min  int       `json:"min,omitempty"`
	Max  int       `json:"max,omitempty"`
	Lazy bool      `json:"lazy,omitempty"`

	// annotations, filled by Annotate
	Eff Opts `json:"-"`
	Cap int  `json:"-"` // capture number of a capturing group (0 = does not capture)
}

// Opts are the inline-togglable options.
type Opts struct {
	I, M, S, N, X bool
}

func (o Opts) Letters() string {
	s := ""
	if o.I {
		s += "i"
	}
	if o.M {
		s += "m"
	}
	if o.S {
		s += "s"
	}
	if o.N {
		s += "n"
	}
	if o.X {
		s += "x"
	}
	return s
}

func (o Opts) apply(on, off string) Opts {
	set := func(l byte, v bool) {
		switch l {
		case 'i':
			o.I = v
		case 'm':
			o.M = v
		case 's':
			o.S = v
		case 'n':
			o.N = v
		case 'x':
			o.X = v
		}
	}
	for i := 0; i < len(on); i++ {
		set(on[i], true)
	}
	for i := 0; i < len(off); i++ {
		set(off[i], false)
	}
	return o
}

// ---------- constructors

func Lit(r ...rune) *Node          { return &Node{K: KLit, R: r} }
func Str(s string) *Node           { return &Node{K: KLit, R: []rune(s)} }
func Dot() *Node                   { return &Node{K: KDot} }
func Class(e *cls.Expr) *Node      { return &Node{K: KClass, C: e} }
func Anchor(s string) *Node        { return &Node{K: KAnchor, S: s} }
func Seq(k ...*Node) *Node         { return &Node{K: KSeq, Kids: k} }
func Alt(k ...*Node) *Node         { return &Node{K: KAlt, Kids: k} }
func Empty() *Node                 { return &Node{K: KEmpty} }
func Group(g GKind, k *Node) *Node { return &Node{K: KGroup, G: g, Kids: []*Node{k}} }
func Quant(k *Node, min, max int, lazy bool) *Node {
	return &Node{K: KQuant, Kids: []*Node{k}, Min: min, Max: max, Lazy: lazy}
}

// Clone deep-copies a tree.
func (n *Node) Clone() *Node {
	if n == nil {
		return nil
	}
	c := *n
	c.R = append([]rune(nil), n.R...)
	if n.C != nil {
		c.C = cloneCls(n.C)
	}
	c.Kids = make([]*Node, len(n.Kids))
	for i, k := range n.Kids {
		c.Kids[i] = k.Clone()
	}
	return &c
}

func cloneCls(e *cls.Expr) *cls.Expr {
	if e == nil {
		return nil
	}
	c := *e
	c.Items = append([]cls.Item(nil), e.Items...)
	c.Sub = cloneCls(e.Sub)
	return &c
}

// Walk visits nodes in pattern-text order (pre-order, children left to right).
func (n *Node) Walk(f func(*Node)) {
	if n == nil {
		return
	}
	f(n)
	for _, k := range n.Kids {
		k.Walk(f)
	}
}

// Has reports whether any node satisfies p.
func (n *Node) Has(p func(*Node) bool) bool {
	found := false
	n.Walk(func(x *Node) {
		if p(x) {
			found = true
		}
	})
	return found
}

func (n *Node) IsLook() bool {
	return n.K == KGroup && n.G >= GLookahead && n.G <= GNegLookbehind
}

func (n *Node) IsCapturing() bool {
	return n.K == KGroup && (n.G == GCap || n.G == GNamed || n.G == GNumbered || n.G == GBalance || n.G == GPyNamed)
}

// ---------- analyses

// Nullable: can the node match the empty string (conservatively: true when unsure)?
func Nullable(n *Node) bool {
	switch n.K {
	case KLit:
		return len(n.R) == 0
	case KDot, KClass, KShort, KProp:
		return false
	case KAnchor, KEmpty, KOpt, KComment, KBackref, KRaw:
		if n.K == KOpt && len(n.Kids) > 0 {
			return Nullable(n.Kids[0])
		}
		return true
	case KSeq:
		for _, k := range n.Kids {
			if !Nullable(k) {
				return false
			}
		}
		return true
	case KAlt:
		for _, k := range n.Kids {
			if Nullable(k) {
				return true
			}
		}
		return false
	case KGroup:
		if n.IsLook() {
			return true
		}
		return Nullable(n.Kids[0])
	case KQuant:
		return n.Min == 0 || Nullable(n.Kids[0])
	case KCond:
		no := n.Kids[2]
		return Nullable(n.Kids[1]) || no == nil || Nullable(no)
	}
	return true
}

// BareRepeater: after stripping transparent wrappers the node is itself a quantifier
// (the engine multiplies directly nested repeaters, so such bodies are outside C01's fragment).
func BareRepeater(n *Node) bool {
	switch n.K {
	case KQuant:
		return true
	case KGroup:
		if n.G == GNon || n.G == GAtomic || (n.G == GCap && n.Eff.N) {
			// (a plain group under ExplicitCapture does not capture; known only after annotation)
			return BareRepeater(n.Kids[0])
		}
	case KOpt:
		if len(n.Kids) > 0 {
			return BareRepeater(n.Kids[0])
		}
	case KSeq:
		var only *Node
		for _, k := range n.Kids {
			if k.K == KEmpty || k.K == KComment || (k.K == KOpt && len(k.Kids) == 0) || (k.K == KLit && len(k.R) == 0) {
				continue
			}
			if only != nil {
				return coalesces(n)
			}
			only = k
		}
		if only != nil {
			return BareRepeater(only)
		}
	case KAlt:
		if len(n.Kids) == 1 {
			return BareRepeater(n.Kids[0])
		}
	}
	return coalesces(n)
}

// coalesces: a sequence of repetitions of one and the same single-character atom (a{1,3}a, a*aa, [ab]+[ab])
// with at least one quantifier among them is merged by the engine into a single repeater, so as the body of
// an outer quantifier it is "reducible to a bare quantified item".
func coalesces(n *Node) bool {
	if n.K != KSeq {
		return false
	}
	key, quants, parts := "", 0, 0
	for _, k := range n.Kids {
		if k.K == KEmpty || k.K == KComment || (k.K == KOpt && len(k.Kids) == 0) || (k.K == KLit && len(k.R) == 0) {
			continue
		}
		for (k.K == KGroup && (k.G == GNon || k.G == GAtomic || (k.G == GCap && k.Eff.N))) || (k.K == KOpt && len(k.Kids) > 0) {
			k = k.Kids[0]
		}
		if k.K == KQuant {
			quants++
			k = k.Kids[0]
			for (k.K == KGroup && (k.G == GNon || k.G == GAtomic)) || (k.K == KOpt && len(k.Kids) > 0) {
				k = k.Kids[0]
			}
		}
		ak, ok := atomKey(k)
		if !ok || (key != "" && ak != key) {
			return false
		}
		key = ak
		parts++
	}
	return parts >= 2 && quants >= 1
}

func atomKey(n *Node) (string, bool) {
	switch n.K {
	case KLit:
		if len(n.R) == 0 {
			return "", false
		}
		for _, r := range n.R {
			if r != n.R[0] {
				return "", false
			}
		}
		return fmt.Sprintf("lit:%d:%v", n.R[0], n.Eff.I), true
	case KDot:
		return fmt.Sprintf("dot:%v", n.Eff.S), true
	case KShort:
		return "short:" + n.S, true
	case KProp:
		return fmt.Sprintf("prop:%s:%v", n.S, n.Neg), true
	case KClass:
		if n.C != nil {
			return "class:" + n.C.Print(false), true
		}
	}
	return "", false
}

// ---------- annotation: effective options and capture numbers

// Info is the result of Annotate.
type Info struct {
	GroupNums  []int          // sorted capture numbers, excluding 0
	NameToNum  map[string]int // named groups
	NumToName  map[int]string
	ParenOrder []*Node // capturing group nodes in order of opening parenthesis
}

// Annotate resolves, in pattern-text order, the options in effect at every node
// ("(?i)" lasts to the end of the enclosing group) and the capture numbers:
// unnamed groups are numbered 1.. by opening parenthesis (non-capturing while
// ExplicitCapture is in effect), explicitly numbered groups keep their number,
// named groups take the free numbers after the unnamed ones in order of first
// appearance (same name = same number). With captureOrder all groups are
// numbered purely in pattern order.
func Annotate(root *Node, base Opts, captureOrder bool) *Info {
	info := &Info{NameToNum: map[string]int{}, NumToName: map[int]string{}}
	// pass 1: options + mark which plain groups capture
	var walk func(n *Node, o Opts) Opts
	walk = func(n *Node, o Opts) Opts {
		if n == nil {
			return o
		}
		n.Eff = o
		switch n.K {
		case KOpt:
			no := o.apply(n.S, n.S2)
			if len(n.Kids) == 0 {
				return no // switch: lasts until the enclosing group closes
			}
			walk(n.Kids[0], no)
			return o
		case KGroup:
			n.Cap = 0
			if n.G == GCap && !o.N {
				n.Cap = -1 // to be numbered
			} else if n.G != GCap && n.IsCapturing() {
				n.Cap = -1
			}
			if n.Cap == -1 {
				info.ParenOrder = append(info.ParenOrder, n)
			}
			walk(n.Kids[0], o)
			return o
		case KQuant:
			// the body is an atom (a group restores options itself) or is printed inside (?:...)
			walk(n.Kids[0], o)
			return o
		case KCond:
			// (?(test)yes|no) is a group: the test is parenthesised on its own, the branches share one scope
			walk(n.Kids[0], o)
			cur := walk(n.Kids[1], o)
			if n.Kids[1].K == KAlt {
				cur = o // printed inside (?:...), which restores options
			}
			walk(n.Kids[2], cur)
			return o
		case KSeq, KAlt:
			cur := o
			for _, k := range n.Kids {
				if n.K == KSeq && k.K == KAlt {
					walk(k, cur) // printed inside (?:...), which restores options
					continue
				}
				cur = walk(k, cur)
			}
			return cur
		}
		return o
	}
	walk(root, base)

	// pass 2: numbers
	used := map[int]bool{0: true}
	if captureOrder {
		next := 1
		for _, g := range info.ParenOrder {
			switch {
			case g.G == GNumbered:
				g.Cap = g.Num
			case (g.G == GNamed || g.G == GPyNamed || (g.G == GBalance && g.S != "")):
				if v, ok := info.NameToNum[g.S]; ok {
					g.Cap = v
				} else {
					for used[next] {
						next++
					}
					g.Cap = next
					info.NameToNum[g.S] = next
					info.NumToName[next] = g.S
				}
			case g.G == GBalance:
				g.Cap = 0
				continue
			default:
				for used[next] {
					next++
				}
				g.Cap = next
			}
			used[g.Cap] = true
		}
	} else {
		auto := 1
		for _, g := range info.ParenOrder {
			if g.G == GCap {
				g.Cap = auto
				used[auto] = true
				auto++
			} else if g.G == GNumbered {
				g.Cap = g.Num
				used[g.Num] = true
			}
		}
		for _, g := range info.ParenOrder {
			if g.G == GNamed || g.G == GPyNamed || (g.G == GBalance && g.S != "") {
				if v, ok := info.NameToNum[g.S]; ok {
					g.Cap = v
					continue
				}
				for used[auto] {
					auto++
				}
				g.Cap = auto
				used[auto] = true
				info.NameToNum[g.S] = auto
				info.NumToName[auto] = g.S
			} else if g.G == GBalance {
				g.Cap = 0
			}
		}
	}
	// resolve references by name
	root.Walk(func(x *Node) {
		if x.K == KBackref || (x.K == KCond && x.Kids[0] == nil) {
			x.Cap = x.Num
			if x.S != "" {
				if v, ok := info.NameToNum[x.S]; ok {
					x.Cap = v
				} else {
					x.Cap = -1
				}
			}
		}
	})
	seen := map[int]bool{}
	for _, g := range info.ParenOrder {
		if g.Cap > 0 && !seen[g.Cap] {
			seen[g.Cap] = true
			info.GroupNums = append(info.GroupNums, g.Cap)
		}
	}
	sort.Ints(info.GroupNums)
	return info
}

// ---------- printing

// PrintOpts controls the concrete syntax.
type PrintOpts struct {
	ECMA  bool          // no \x{...}; use \uHHHH
	Blank func() string // if set: returns "" or insignificant whitespace / comment, inserted between tokens wherever x is in effect
}

const metaChars = `\.+*?()|[]{}^$#`

func litRune(r rune, po PrintOpts) string {
	switch {
	case strings.ContainsRune(metaChars, r):
		return `\` + string(r)
	case r == '\n':
		return `\n`
	case r == '\t':
		return `\t`
	case r == '\r':
		return `\r`
	case r == ' ':
		return `\ ` // harmless outside x-mode, required inside
	case r > ' ' && r < 0x7f:
		return string(r)
	}
	if po.ECMA {
		if r <= 0xFFFF {
			return fmt.Sprintf(`\u%04X`, r)
		}
		return string(r)
	}
	return fmt.Sprintf(`\x{%X}`, r)
}

// styledRune prints a literal rune in the escape style a KLit node asks for in S (empty = canonical):
// "x2" \xHH, "xb" \x{H..}, "oct" \0OO, "name" \a \f \v \t \n \r, "punct" backslash + the ASCII punctuation
// character. A style that cannot express the rune falls back to the canonical form.
func styledRune(r rune, style string, po PrintOpts) string {
	switch style {
	case "x2":
		if r < 0x100 {
			return fmt.Sprintf(`\x%02X`, r)
		}
	case "xb":
		if !po.ECMA {
			return fmt.Sprintf(`\x{%X}`, r)
		}
	case "oct":
		if r < 0x40 {
			return fmt.Sprintf(`\0%02o`, r)
		}
	case "name":
		if i := strings.IndexRune("\a\f\v\t\n\r", r); i >= 0 {
			return `\` + string("afvtnr"[i])
		}
	case "punct":
		if r > ' ' && r < 0x7f && !(r >= '0' && r <= '9') && !(r >= 'A' && r <= 'Z') && !(r >= 'a' && r <= 'z') {
			return `\` + string(r)
		}
	}
	return litRune(r, po)
}

// plainCondOK: the printed condition starts with a character that cannot begin a group name or number
// and is not itself a group construct.
func plainCondOK(test *Node, po PrintOpts) bool {
	q := &printer{po: PrintOpts{ECMA: po.ECMA}}
	q.node(test.Kids[0], false)
	t := q.sb.String()
	if t == "" {
		return false
	}
	return t[0] == '[' || t[0] == '.' || (t[0] == '\\' && len(t) > 1 && strings.ContainsRune("dwsDWSpP", rune(t[1])))
}

type printer struct {
	sb strings.Builder
	po PrintOpts
}

func (p *printer) blank() {
	if p.po.Blank != nil {
		p.sb.WriteString(p.po.Blank())
	}
}

// Print renders the pattern. xAware: when a node's effective options (from Annotate)
// have X set, blanks may be inserted; literal blanks and '#' are always escaped.
func Print(n *Node, po PrintOpts) string {
	p := &printer{po: po}
	p.node(n, false)
	return p.sb.String()
}

func atomic(n *Node) bool {
	switch n.K {
	case KDot, KClass, KShort, KProp, KGroup, KBackref, KCond:
		return true
	case KLit:
		return len(n.R) == 1
	case KOpt:
		return len(n.Kids) > 0
	}
	return false
}

func (p *printer) node(n *Node, inSeq bool) {
	sb := &p.sb
	xok := p.po.Blank != nil && n.Eff.X
	switch n.K {
	case KLit:
		for _, r := range n.R {
			sb.WriteString(styledRune(r, n.S, p.po))
			if xok {
				p.blank()
			}
		}
	case KDot:
		sb.WriteByte('.')
	case KClass:
		sb.WriteString(n.C.Print(p.po.ECMA))
	case KShort:
		sb.WriteString(`\` + n.S)
	case KProp:
		if n.Neg {
			sb.WriteString(`\P{` + n.S + `}`)
		} else {
			sb.WriteString(`\p{` + n.S + `}`)
		}
	case KAnchor:
		sb.WriteString(n.S)
	case KEmpty:
	case KRaw:
		sb.WriteString(n.S)
	case KComment:
		sb.WriteString("(?#" + n.S + ")")
	case KSeq:
		for _, k := range n.Kids {
			if p.po.Blank != nil && k.Eff.X {
				p.blank()
			}
			if k.K == KAlt {
				sb.WriteString("(?:")
				p.node(k, false)
				sb.WriteString(")")
			} else {
				p.node(k, true)
			}
		}
	case KAlt:
		for i, k := range n.Kids {
			if i > 0 {
				sb.WriteByte('|')
			}
			p.node(k, false)
		}
	case KGroup:
		switch n.G {
		case GCap:
			sb.WriteString("(")
		case GNamed:
			sb.WriteString("(?<" + n.S + ">")
		case GPyNamed:
			sb.WriteString("(?P<" + n.S + ">")
		case GNumbered:
			fmt.Fprintf(sb, "(?<%d>", n.Num)
		case GNon:
			sb.WriteString("(?:")
		case GAtomic:
			sb.WriteString("(?>")
		case GLookahead:
			sb.WriteString("(?=")
		case GNegLookahead:
			sb.WriteString("(?!")
		case GLookbehind:
			sb.WriteString("(?<=")
		case GNegLookbehind:
			sb.WriteString("(?<!")
		case GBalance:
			sb.WriteString("(?<" + n.S + "-" + n.S2 + ">")
		}
		p.node(n.Kids[0], false)
		sb.WriteByte(')')
	case KQuant:
		b := n.Kids[0]
		if atomic(b) {
			p.node(b, true)
		} else {
			sb.WriteString("(?:")
			p.node(b, false)
			sb.WriteString(")")
		}
		if xok {
			p.blank()
		}
		switch {
		case n.Min == 0 && n.Max == -1:
			sb.WriteByte('*')
		case n.Min == 1 && n.Max == -1:
			sb.WriteByte('+')
		case n.Min == 0 && n.Max == 1:
			sb.WriteByte('?')
		case n.Max == -1:
			fmt.Fprintf(sb, "{%d,}", n.Min)
		case n.Min == n.Max:
			fmt.Fprintf(sb, "{%d}", n.Min)
		default:
			fmt.Fprintf(sb, "{%d,%d}", n.Min, n.Max)
		}
		if n.Lazy {
			sb.WriteByte('?')
		}
	case KBackref:
		if n.S != "" {
			sb.WriteString(`\k<` + n.S + `>`)
		} else {
			fmt.Fprintf(sb, `\%d`, n.Num)
			sb.WriteString("(?:)") // keeps a following digit out of the number
		}
	case KCond:
		test := n.Kids[0]
		switch {
		case test != nil && n.S2 == "plain" && test.K == KGroup && test.G == GNon && plainCondOK(test, p.po):
			// (?(expr)yes|no): the condition in plain parentheses (they do not capture); only used when the
			// expression cannot be read as a group name or number
			sb.WriteString("(?(")
			p.node(test.Kids[0], false)
			sb.WriteByte(')')
		case test != nil:
			sb.WriteString("(?")
			p.node(test, false) // an explicit lookaround group, or a parenthesised bare expression
		case n.S != "":
			sb.WriteString("(?(" + n.S + ")")
		default:
			fmt.Fprintf(sb, "(?(%d)", n.Num)
		}
		p.branch(n.Kids[1])
		if n.Kids[2] != nil {
			sb.WriteByte('|')
			p.branch(n.Kids[2])
		}
		sb.WriteByte(')')
	case KOpt:
		sb.WriteString("(?" + n.S)
		if n.S2 != "" {
			sb.WriteString("-" + n.S2)
		}
		if len(n.Kids) == 0 {
			sb.WriteByte(')')
		} else {
			sb.WriteByte(':')
			p.node(n.Kids[0], false)
			sb.WriteByte(')')
		}
	}
}

func (p *printer) branch(n *Node) {
	if n.K == KAlt {
		p.sb.WriteString("(?:")
		p.node(n, false)
		p.sb.WriteString(")")
		return
	}
	p.node(n, false)
}

// Features lists construct labels present in the tree (for statistics).
func Features(n *Node) []string {
	m := map[string]bool{}
	n.Walk(func(x *Node) {
		switch x.K {
		case KAlt:
			m["alt"] = true
		case KQuant:
			if x.Lazy {
				m["lazy"] = true
			} else {
				m["greedy"] = true
			}
			if x.Max != -1 && !(x.Min == 0 && x.Max == 1) {
				m["counted-loop"] = true
			}
		case KBackref:
			m["backref"] = true
		case KCond:
			m["conditional"] = true
		case KOpt:
			m["inline-option"] = true
		case KClass:
			m["class"] = true
			if x.C.Sub != nil {
				m["subtraction"] = true
			}
		case KAnchor:
			m["anchor"] = true
			if x.S == `\G` {
				m["\\G"] = true
			}
		case KGroup:
			switch x.G {
			case GLookahead, GNegLookahead:
				m["lookahead"] = true
			case GLookbehind, GNegLookbehind:
				m["lookbehind"] = true
			case GAtomic:
				m["atomic"] = true
			case GNamed, GPyNamed:
				m["named-group"] = true
			case GCap:
				m["group"] = true
			case GBalance:
				m["balancing"] = true
			case GNumbered:
				m["numbered-group"] = true
			}
		}
	})
	out := make([]string, 0, len(m))
	for k := range m {
		out = append(out, k)
	}
	sort.Strings(out)
	return out
}

// HasChoice: the pattern contains at least one choice point.
func HasChoice(n *Node) bool {
	return n.Has(func(x *Node) bool {
		return x.K == KAlt || x.K == KQuant || x.K == KBackref || x.K == KCond || x.IsLook()
	})
}

// LiteralRunes collects the literal runes and class endpoints of the pattern.
func LiteralRunes(n *Node) []rune {
	seen := map[rune]bool{}
	var out []rune
	add := func(r rune) {
		if !seen[r] {
			seen[r] = true
			out = append(out, r)
		}
	}
	n.Walk(func(x *Node) {
		switch x.K {
		case KLit:
			for _, r := range x.R {
				add(r)
			}
		case KClass:
			for _, r := range x.C.Endpoints() {
				add(r)
			}
		}
	})
	return out
}
